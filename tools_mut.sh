#!/bin/bash
# usage: tools_mut.sh <patch-or-sed-script.sh> <prop> [tier]  -- run a check against a mutated scratch copy of /repo
set -e
D=$(mktemp -d /dev/shm/mut.XXXXXX)
rsync -a --exclude .git --exclude '*.egg-info' /repo/ $D/
case "$1" in
  *.sh) (cd $D && bash "$1");;
  *) (cd $D && patch -p1 -s < "$1");;
esac
shift
cd /verif
rc=0
for p in "$@"; do
  VERIF_REPO=$D /venv/bin/python -m vf.run $p --tier ${TIER:-quick} 2>&1 | tail -${TAIL:-6} || rc=$?
done
rm -rf $D
exit 0
