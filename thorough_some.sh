#!/bin/bash
cd "$(dirname "$0")"
for p in "$@"; do
  out=$(/venv/bin/python -m vf.run $p --tier thorough 2>&1); rc=$?
  echo "$p rc=$rc :: $(echo "$out" | grep -v KNOWN-FINDING | tail -1)"
  if [ $rc -ne 0 ]; then echo "$out" | grep -v KNOWN-FINDING | tail -15; fi
done
