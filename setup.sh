#!/bin/bash
# Offline setup: make sure hypothesis is importable by /venv/bin/python (install from the local wheelhouse if not),
# and put atheris (used only by C17's thorough-tier fuzz part) into /verif/.deps; nothing is fetched from a network.
cd "$(dirname "$0")"
if ! /venv/bin/python -c "import hypothesis" 2>/dev/null; then
  /venv/bin/pip install --no-index --find-links /opt/veriftools/wheels hypothesis >/dev/null 2>&1 || \
  /venv/bin/pip install --no-index --find-links /opt/veriftools/wheels --target .deps hypothesis sortedcontainers attrs >/dev/null 2>&1
fi
if ! PYTHONPATH=.deps /venv/bin/python -c "import atheris" 2>/dev/null; then
  /venv/bin/pip install --no-index --find-links /opt/veriftools/wheels --target .deps atheris >/dev/null 2>&1 || \
    echo "note: atheris not installable; C17's fuzz part will report itself unavailable (the Hypothesis parts are unaffected)"
fi
mkdir -p evidence replays
PYTHONPATH=.deps /venv/bin/python -c "import sys; sys.path.append('.deps'); import hypothesis, teaal, lark, sympy, networkx; print('setup ok: hypothesis', hypothesis.__version__)"
