#!/bin/bash
# Offline setup: make sure hypothesis is importable by /venv/bin/python (install from the local wheelhouse if not).
set -e
cd "$(dirname "$0")"
if ! /venv/bin/python -c "import hypothesis" 2>/dev/null; then
  /venv/bin/pip install --no-index --find-links /opt/veriftools/wheels hypothesis >/dev/null 2>&1 || \
  /venv/bin/pip install --no-index --find-links /opt/veriftools/wheels --target .deps hypothesis sortedcontainers attrs
fi
PYTHONPATH=.deps /venv/bin/python -c "import sys; sys.path.append('.deps'); import hypothesis, teaal, lark, sympy, networkx; print('setup ok: hypothesis', hypothesis.__version__)"
mkdir -p evidence replays
