"""usage: python notes/mkseedprompts.py <round-tag> Cxx...   -- creates worktrees /tmp/wt<tag>-cxx, prompts /tmp/seed<tag>-prompt-cxx.txt, out dirs"""
import json, glob, os, subprocess, sys
tag = sys.argv[1]
tmpl = open('/verif/notes/seed-prompt-template.txt').read()
extra_head = '''

IMPORTANT - this is a LATER round. The following changes were already produced for this property in earlier rounds; yours must be DIFFERENT from all of them: different root cause and, where the property's anchors allow it, a different function or file. Strongly prefer changes that make the compiler emit a program that silently does the wrong thing (or violate the property silently) over changes that merely make the compiler crash, and prefer changes whose manifestation needs an unusual-but-legal combination of features. Do NOT run mutation surveys that spawn many parallel test processes (other jobs share this machine): run the test suite at most one process at a time. Never kill processes you did not start yourself (do not use pkill/killall). Do not create any file under /repo. Be efficient: aim to finish within about 45-60 minutes.
'''
props = {json.loads(l)["id"]: json.loads(l) for l in open('/verif/properties.jsonl')}
for pid in sys.argv[2:]:
    n = pid.lower()
    wt = "/tmp/wt%s-%s" % (tag, n); out = "/tmp/seed%s-%s" % (tag, n)
    os.makedirs(out, exist_ok=True)
    json.dump(props[pid], open("/tmp/prop-%s.json" % pid, "w"), indent=1)
    subprocess.check_call(["git", "-C", "/repo", "worktree", "add", "--detach", "-q", wt, "HEAD"])
    prev = []
    for d in sorted(glob.glob('/verif/seeded/%s-*' % pid)):
        m = json.load(open(d + '/meta.json')); prev.append("- " + m.get("summary", "")[:330])
    t = tmpl.replace("WORKTREE", wt).replace("PROPFILE", "/tmp/prop-%s.json" % pid).replace("OUTDIR", out)
    i = t.index("Deliverables, all written into")
    t = t[:i] + extra_head + "\n".join(prev) + "\n\n" + t[i:]
    open('/tmp/seed%s-prompt-%s.txt' % (tag, n), 'w').write(t)
    print(pid, len(prev))
