import itertools, random
from gen1 import comp
from hfmodel import Tensor, Fiber
def run_conv(expr, lo, part=None, ext=None, seed=0, show=False, a=1, b=1):
    y = f"""
einsum:
  declaration:
    F: [S]
    I: [W]
    O: [Q]
  expressions:
    - {expr}
mapping:
"""
    if part: y += "  partitioning:\n    O:\n" + "".join(f"      {k}: [{v}]\n" for k, v in part.items())
    if lo: y += f"  loop-order:\n    O: [{', '.join(lo)}]\n"
    try:
        code = comp(y)
    except Exception as e:
        return "compile-error " + str(e)[:150]
    if show: print(code)
    rng = random.Random(seed)
    res = []
    for t in range(30):
        S = rng.randint(1, 4); Q = rng.randint(1, 12); W = a*(Q-1) + b*(S-1) + 1
        Fd = {(s,): rng.randint(1,3) for s in range(S) if rng.random()<0.6}
        Id = {(w,): rng.randint(1,3) for w in range(W) if rng.random()<0.6}
        g = {"Tensor": Tensor, "Fiber": Fiber, "S": S, "Q": Q, "W": W, "F_S": Tensor.fromDict(["S"], Fd), "I_W": Tensor.fromDict(["W"], Id)}
        try:
            exec(code, g)
        except Exception as e:
            import traceback; 
            return "run-error " + repr(e)[:200] + traceback.format_exc()[-300:]
        exp = {}
        for q in range(Q):
            for s in range(S):
                v = Id.get((a*q+b*s,), 0) * Fd.get((s,), 0)
                if v: exp[(q,)] = exp.get((q,), 0) + v
        got = g["O_Q"].toDict()
        if got != exp: return f"mismatch S={S} Q={Q} W={W} F={Fd} I={Id} got={got} exp={exp}"
    return "ok"

for lo in [None, ["Q","S"], ["S","Q"], ["W","Q"], ["W","S"], ["Q","W"], ["S","W"]]:
    print("conv", lo, run_conv("O[q] = I[q + s] * F[s]", lo))
for lo in [None, ["Q","S"], ["S","Q"], ["W","Q"], ["W","S"], ["Q","W"], ["S","W"]]:
    print("stride2", lo, run_conv("O[q] = I[2*q + s] * F[s]", lo, a=2))
for lo in [None, ["Q","S"], ["S","Q"], ["W","Q"], ["W","S"]]:
    print("dil", lo, run_conv("O[q] = I[q + 2*s] * F[s]", lo, b=2))
    print("stride3dil2", lo, run_conv("O[q] = I[3*q + 2*s] * F[s]", lo, a=3, b=2))
