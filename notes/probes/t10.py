import glob, random
import networkx as nx
from teaal.parse import *
from teaal.ir.program import Program
from teaal.ir.hardware import Hardware
from teaal.ir.metrics import Metrics
from teaal.ir.flow_graph import FlowGraph
from teaal.ir.flow_nodes import *
import teaal.ir.flow_graph as fg

rng = random.Random(0)
def rand_topo(g):
    indeg = {n: g.in_degree(n) for n in g.nodes}
    ready = [n for n in g.nodes if indeg[n] == 0]
    out = []
    while ready:
        i = rng.randrange(len(ready))
        n = ready.pop(i)
        out.append(n)
        for _, m in g.out_edges(n):
            indeg[m] -= 1
            if indeg[m] == 0: ready.append(m)
    assert len(out) == len(g.nodes)
    return out
orig = nx.topological_sort
def check(fn, patched):
    e, m = Einsum.from_file(fn), Mapping.from_file(fn)
    a, b, f = Architecture.from_file(fn), Bindings.from_file(fn), Format.from_file(fn)
    prog = Program(e, m)
    hw = Hardware(a, b, prog) if a.get_spec() else None
    res = []
    for i in range(len(e.get_expressions())):
        prog.add_einsum(i)
        met = Metrics(prog, hw, f) if hw else None
        fg.nx.topological_sort = rand_topo if patched else orig
        try:
            g = FlowGraph(prog, met, ["hoist"])
        finally:
            fg.nx.topological_sort = orig
        order = g.get_sorted(); graph = g.get_graph()
        pos = {n: i for i, n in enumerate(order)}
        bad = [(u, v) for u, v in graph.edges if pos[u] >= pos[v]]
        lo = prog.get_loop_order().get_ranks()
        chain = [LoopNode(r) for r in lo] + [OtherNode("Body")] + [EndLoopNode(r) for r in reversed(lo)]
        nest = all(pos[x] < pos[y] for x, y in zip(chain, chain[1:]))
        perm = len(order) == len(graph.nodes) == len(set(order))
        res.append((len(bad), nest, perm))
        prog.reset()
    return res
for fn in sorted(glob.glob("/repo/tests/integration/*.yaml")):
    try:
        for p in (False, True, True, True):
            r = check(fn, p)
            if any(b or not n or not pm for b, n, pm in r): print(fn.split("/")[-1], p, r)
    except KeyError as ex:
        pass
print("done")
