import itertools, random, sys
from gen1 import *
import gen2, gen3
from collections import Counter

class Canvas:
    def __init__(self, *tensors): self.tensors = [list(t.rank_ids) for t in tensors]; self.acts = []
    def addActivity(self, *points, spacetime=None): self.acts.append((points, spacetime))

def trial16(seed, occ=False):
    rng = random.Random(seed)
    if occ:
        s = gen3.gen_occ_spec(rng); y = gen3.to_yaml3(s)
    else:
        while True:
            s = gen2.gen_part_spec(rng)
            if s["ordered"]: break
        y = gen2.to_yaml2(s)
    # need explicit loop order to know ranks
    lo = s["lo"]
    if lo is None: return ("skip", "", "")
    ranks = list(lo); rng.shuffle(ranks)
    k = rng.randint(0, len(ranks))
    def st(r): return r + rng.choice(["", ".pos", ".coord"])
    space = [st(r) for r in ranks[:k]]; time = [st(r) for r in ranks[k:]]
    slip = rng.random() < 0.3
    y2 = y + f"  spacetime:\n    Z:\n      space: [{', '.join(space)}]\n      time: [{', '.join(time)}]\n" + ("      opt: slip\n" if slip else "")
    try:
        code = comp(y2); code0 = comp(y)
    except Exception as e:
        return ("compile-error", type(e).__name__ + ": " + str(e)[:100], y2)
    ext = {r: rng.randint(1, 6) for r in s["ranks"]}
    res = []
    for c in (code, code0):
        rng2 = random.Random(seed + 1)
        env = dict(ext)
        for n, rs in s["decl"].items():
            if n == "Z": continue
            d = {}
            for cs in itertools.product(*[range(ext[r]) for r in rs]):
                if rng2.random() < 0.5 or not rs: d[cs] = rng2.randint(1, 4)
            order = s["ro"].get(n, rs); perm = [rs.index(r) for r in order]
            env[n + "_" + "".join(order)] = Tensor.fromDict(order, {tuple(cs[i] for i in perm): v for cs, v in d.items()}, n)
        cv = {}
        def createCanvas(*t):
            cv["c"] = Canvas(*t); cv["n"] = cv.get("n", 0) + 1; return cv["c"]
        def displayCanvas(c): cv["shown"] = cv.get("shown", 0) + 1
        g = {"Tensor": Tensor, "Fiber": Fiber, "createCanvas": createCanvas, "displayCanvas": displayCanvas}; g.update(env)
        try:
            exec(compile(c, "<h>", "exec"), g)
        except Exception as e:
            return ("run-error", type(e).__name__ + ": " + str(e)[:200], y2 + "\n" + c)
        zo = s["ro"].get("Z", s["out"])
        res.append((g["Z_" + "".join(zo)].toDict(), cv))
    if res[0][0] != res[1][0]: return ("tensor-mismatch", "", y2 + "\n" + code)
    cv = res[0][1]
    if cv.get("n") != 1 or cv.get("shown") != 1: return ("canvas-count", str(cv), y2 + "\n" + code)
    c = cv["c"]
    for pts, stp in c.acts:
        if len(pts) != len(c.tensors) or any(len(p) != len(t) for p, t in zip(pts, c.tensors)):
            return ("arity", f"{pts} {c.tensors}", y2 + "\n" + code)
    stamps = Counter(a[1] for a in c.acts)
    if any(v > 1 for v in stamps.values()):
        return ("dup-stamp", str([k for k, v in stamps.items() if v > 1][:3]) + f" slip={slip}", y2 + "\n" + code)
    return ("ok", "", "")

if __name__ == "__main__":
    cnt = Counter(); shown = Counter()
    occ = sys.argv[3] == "occ"
    for seed in range(int(sys.argv[1]), int(sys.argv[2])):
        k, msg, ctx = trial16(seed, occ)
        cnt[k] += 1
        if k not in ("ok", "skip") and shown[(k, msg[:30])] < 1 and sum(shown.values()) < 6:
            shown[(k, msg[:30])] += 1
            print("=====", seed, k, msg); print(ctx)
    print(cnt)
