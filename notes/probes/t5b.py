import re
from teaal.parse import *
from teaal.trans.hifiber import HiFiber
from ruamel.yaml import YAML
import io, copy
def renum(t):
    m = {}
    def f(x):
        k = x.group(0)
        if k not in m: m[k] = "tmp%d" % len(m)
        return m[k]
    return re.sub(r"\btmp\d+\b", f, t)
def comp_d(d):
    return str(HiFiber(Einsum(d), Mapping(d)))
yaml = YAML(typ='safe', pure=True)
for fn in ["test_input", "example", "example2", "example7", "gram", "nrm_sq", "test_input_no_mapping"]:
    d = yaml.load(open(f"/repo/tests/integration/{fn}.yaml"))
    exprs = d["einsum"]["expressions"]
    n = len(exprs)
    ok = True
    for j in range(n):
        prev = ""
        for i in range(j, n):
            dd = copy.deepcopy(d); dd["einsum"]["expressions"] = exprs[j:i+1]
            full = comp_d(dd)
            assert full.startswith(prev), (fn, j, i)
            part = full[len(prev):].lstrip("\n")
            da = copy.deepcopy(d); da["einsum"]["expressions"] = [exprs[i]]
            alone = comp_d(da)
            if renum(part) != renum(alone):
                ok = False; print(fn, j, i, "DIFF"); print(part); print("----"); print(alone)
            prev = full
    print(fn, n, ok)
