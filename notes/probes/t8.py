from teaal.parse import *
from teaal.trans.hifiber import HiFiber
import copy, sys
for f in ["sigma", "gamma", "extensor", "outerspace", "extensor-energy"]:
    fn = f"/repo/tests/integration/{f}.yaml"
    objs = [Einsum.from_file(fn), Mapping.from_file(fn), Architecture.from_file(fn), Bindings.from_file(fn), Format.from_file(fn)]
    snap = copy.deepcopy([vars(o) for o in objs])
    try:
        a = str(HiFiber(*objs))
    except Exception as e:
        print(f, "first compile failed", repr(e)[:100]); continue
    changed = [type(o).__name__ for o, s in zip(objs, snap) if vars(o) != s]
    try:
        b = str(HiFiber(*objs))
        print(f, "changed:", changed, "same text:", a == b)
    except Exception as e:
        print(f, "changed:", changed, "second compile failed:", repr(e)[:200])
