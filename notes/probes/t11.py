import itertools, random, sys
from teaal.parse import *
from teaal.trans.hifiber import HiFiber
import hfmodel
from hfmodel import Tensor, Fiber, Payload

class Anything:
    """inert stand-in: any attribute/call/index returns another Anything"""
    def __init__(self, name="x"): self._n = name
    def __getattr__(self, a): return Anything(self._n + "." + a)
    def __call__(self, *a, **k): return Anything(self._n + "()")
    def __getitem__(self, k): return Anything(self._n + "[]")
    def __add__(self, o): return self
    __radd__ = __add__
    def __iadd__(self, o): return self
    def __truediv__(self, o): return self
    def __lt__(self, o): return False
    def __gt__(self, o): return False
    def copy(self): return self

def run(fn, ext, sizes=None, seed=0, strip=False):
    e, m = Einsum.from_file(fn), Mapping.from_file(fn)
    if strip:
        code = str(HiFiber(e, m))
    else:
        code = str(HiFiber(e, m, Architecture.from_file(fn), Bindings.from_file(fn), Format.from_file(fn)))
    rng = random.Random(seed)
    decl = e.get_declaration(); ro = m.get_rank_orders()
    outs = [str(next(x.find_data("output")).children[0]) for x in e.get_expressions()]
    g = {"Tensor": Tensor, "Fiber": Fiber}
    for n in ["Metrics", "Traffic", "Format", "Compute", "LeaderFollowerIntersector", "SkipAheadIntersector", "TwoFingerIntersector"]:
        g[n] = Anything(n)
    g.update(ext); g.update(sizes or {})
    data = {}
    for t, rs in decl.items():
        if t in outs: continue
        d = {}
        for cs in itertools.product(*[range(ext[r]) for r in rs]):
            if rng.random() < 0.4: d[cs] = rng.randint(1, 4)
        data[t] = d
        order = ro.get(t, rs); perm = [rs.index(r) for r in order]
        g[t + "_" + "".join(order)] = Tensor.fromDict(order, {tuple(cs[i] for i in perm): v for cs, v in d.items()}, t)
    exec(code, g)
    res = {}
    for o in outs:
        order = ro.get(o, decl[o]); perm = [order.index(r) for r in decl[o]]
        res[o] = {tuple(k[i] for i in perm): v for k, v in g[o + "_" + "".join(order)].toDict().items()}
    return data, res

def gemm_ref(data):
    exp = {}
    for (k, m_), a in data["A"].items():
        for (k2, n), b in data["B"].items():
            if k == k2: exp[(m_, n)] = exp.get((m_, n), 0) + a * b
    return exp
for name, sizes in [("sigma", {}), ("extensor", {"M1": 4, "M0": 2, "N1": 4, "N0": 2, "K1": 4, "K0": 2}), ("outerspace", {}), ("gamma", {})]:
    fn = f"/repo/tests/integration/{name}.yaml"
    for strip in (True, False):
        try:
            bad = 0
            for seed in range(10):
                data, res = run(fn, {"M": 7, "N": 6, "K": 9}, sizes, seed, strip)
                if res["Z"] != gemm_ref(data): bad += 1
            print(name, "plain" if strip else "metrics", "mismatches:", bad)
        except Exception as ex:
            import traceback
            print(name, "plain" if strip else "metrics", "ERR", repr(ex)[:300]); traceback.print_exc(limit=-3)
