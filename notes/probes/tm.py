import random, itertools, traceback, sys
from collections import Counter
from teaal.parse import *
from teaal.trans.hifiber import HiFiber
from teaal.ir.program import Program
from teaal.ir.tensor import Tensor as IRTensor

def gen(rng):
    lo = list("MNK"); rng.shuffle(lo)
    k = rng.randint(0, 3); sp = lo[:]; rng.shuffle(sp)
    space, time = sp[:k], sp[k:]
    y = f"""einsum:
  declaration:
    A: [K, M]
    B: [K, N]
    Z: [M, N]
  expressions:
    - Z[m, n] = A[k, m] * B[k, n]
mapping:
  loop-order:
    Z: [{', '.join(lo)}]
  spacetime:
    Z:
      space: [{', '.join(space)}]
      time: [{', '.join(time)}]
"""
    # loop-concordant orders
    p = Program(Einsum.from_str(y), Mapping.from_str(y)); p.add_einsum(0)
    conc = {}
    for t, rs in [("A", ["K","M"]), ("B", ["K","N"]), ("Z", ["M","N"])]:
        tt = IRTensor(t, rs); p.get_loop_order().apply(tt); conc[t] = tt.get_ranks()
    n1 = rng.choice([0, 3]); n2 = rng.choice([0, 7])
    lvl = lambda name, n: name if n == 0 else f"{name}[0..{n}]"
    buf_class = rng.choice(["Buffet", "Cache"])
    isect = rng.choice([None, "two-finger", "skip-ahead", "leader-follower"])
    seq = rng.random() < 0.4
    arch = f"""architecture:
  accel:
  - name: {lvl('System', 0)}
    attributes:
      clock_frequency: {rng.choice([1000, 2048])}
    local:
    - name: Mem
      class: DRAM
      attributes:
        bandwidth: {rng.choice([128, 512])}
    subtree:
    - name: {lvl('Chip', n1)}
      local:
      - name: Buf
        class: {buf_class}
        attributes:
          width: 64
          depth: {rng.choice([1024, 'inf'])}
          bandwidth: 256
      subtree:
      - name: {lvl('PE', n2)}
        local:
        - name: Mul
          class: compute
          attributes:
            type: mul
        - name: Add
          class: compute
          attributes:
            type: add
"""
    if isect:
        arch += f"""        - name: Isect
          class: Intersector
          attributes:
            type: {isect}
"""
    if seq:
        arch += f"""        - name: Seq
          class: Sequencer
          attributes:
            num_ranks: 3
"""
    fmt = "format:\n"
    for t in "ABZ":
        fmt += f"  {t}:\n    default:\n      rank-order: [{', '.join(conc[t])}]\n"
        for r in conc[t]:
            f = rng.choice(["U", "C"])
            fmt += f"      {r}:\n        format: {f}\n"
            if rng.random() < 0.7: fmt += f"        cbits: {rng.choice([0, 32])}\n"
            if rng.random() < 0.8: fmt += f"        pbits: {rng.choice([0, 32, 64])}\n"
    b = "bindings:\n  Z:\n  - config: accel\n    prefix: tmp/Z\n"
    def membind(comp, buffet):
        s = f"  - component: {comp}\n    bindings:\n"
        any_ = False
        for t in "ABZ":
            if rng.random() < 0.3: continue
            for r in conc[t]:
                for ty in ["coord", "payload"]:
                    if rng.random() < 0.5: continue
                    any_ = True
                    s += f"    - tensor: {t}\n      rank: {r}\n      type: {ty}\n      format: default\n"
                    if buffet:
                        i = lo.index(r)
                        ev = rng.choice((["root"] + lo)[: i + 1])
                        s += f"      evict-on: {ev}\n"
                        if rng.random() < 0.3: s += "      style: eager\n"
        return s if any_ else ""
    b += membind("Mem", False)
    b += membind("Buf", buf_class == "Buffet")
    if rng.random() < 0.8: b += "  - component: Mul\n    bindings:\n    - op: mul\n"
    if rng.random() < 0.8: b += "  - component: Add\n    bindings:\n    - op: add\n"
    if isect:
        b += "  - component: Isect\n    bindings:\n    - rank: K\n" + ("      leader: A\n" if isect == "leader-follower" else "")
    if seq:
        rs = rng.sample(lo, rng.randint(1, 3))
        b += "  - component: Seq\n    bindings:\n" + "".join(f"    - rank: {r}\n" for r in rs)
    return y + arch + b + fmt

cnt = Counter(); shown = Counter()
for seed in range(int(sys.argv[1]), int(sys.argv[2])):
    rng = random.Random(seed)
    y = gen(rng)
    try:
        t = str(HiFiber(Einsum.from_str(y), Mapping.from_str(y), Architecture.from_str(y), Bindings.from_str(y), Format.from_str(y)))
        cnt["ok"] += 1
    except Exception as e:
        tb = traceback.extract_tb(e.__traceback__)[-1]
        key = (type(e).__name__, str(e)[:60], tb.name, tb.lineno)
        cnt[key] += 1
        if shown[key] < 1 and len(shown) < 0:
            shown[key] += 1; print(y); traceback.print_exc()
for k, v in cnt.most_common(): print(v, k)
