import glob, random
from teaal.parse import *
from teaal.trans.hifiber import HiFiber
from t2a import compare
for fn in sorted(glob.glob("/repo/tests/integration/*.yaml")):
    try:
        objs = [Einsum.from_file(fn), Mapping.from_file(fn), Architecture.from_file(fn), Bindings.from_file(fn), Format.from_file(fn)]
        hf = HiFiber(*objs)
    except Exception as ex:
        continue
    ok, a, b = compare(hf)
    if not ok:
        # find first diff
        i = next(i for i,(x,y) in enumerate(zip(a,b)) if x!=y)
        print(fn.split("/")[-1], "DIFF", a[max(0,i-150):i+150], "\n   vs   ", b[max(0,i-150):i+150])
    else:
        print(fn.split("/")[-1], "same")
