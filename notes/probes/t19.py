from teaal.parse import *
from teaal.trans.hifiber import HiFiber
def comp(y): return str(HiFiber(Einsum.from_str(y), Mapping.from_str(y)))
base = """einsum:
  declaration:
    A: [K, M]
    B: [K, N]
    Z: [M, N]
  expressions:
    - Z[m, n] = A[k, m] * B[k, n]
mapping:
"""
cases = [
 ("", "  rank-order:\n    A: [K, M]\n    B: [K, N]\n    Z: [M, N]\n  loop-order:\n    Z: [M, N, K]\n"),
 ("  partitioning:\n    Z:\n      K: [uniform_shape(4), uniform_shape(2)]\n      N: [uniform_occupancy(B.3)]\n",
  "  partitioning:\n    Z:\n      K: [uniform_shape(4), uniform_shape(2)]\n      N: [uniform_occupancy(B.3)]\n  loop-order:\n    Z: [M, N1, N0, K2, K1, K0]\n"),
 ("  partitioning:\n    Z:\n      (K, M): [flatten()]\n", "  partitioning:\n    Z:\n      (K, M): [flatten()]\n  loop-order:\n    Z: [KM, N]\n"),
 ("  partitioning:\n    Z:\n      (M, K): [flatten()]\n      MK: [uniform_occupancy(A.3)]\n", "  partitioning:\n    Z:\n      (M, K): [flatten()]\n      MK: [uniform_occupancy(A.3)]\n  loop-order:\n    Z: [MK1, MK0, N]\n"),
 ("  partitioning:\n    Z:\n      K: [uniform_shape(4)]\n      (M, K0): [flatten()]\n", None),
]
from teaal.ir.program import Program
for om, ex in cases:
    y = base + om
    p = Program(Einsum.from_str(y), Mapping.from_str(y)); p.add_einsum(0)
    print("default loop order:", p.get_loop_order().get_ranks())
    if ex:
        print(comp(base + om) == comp(base + ex))
