from teaal.parse import *
from teaal.trans.hifiber import HiFiber
def c(y, metrics=False):
    try:
        if metrics:
            out = str(HiFiber(Einsum.from_str(y), Mapping.from_str(y), Architecture.from_str(y), Bindings.from_str(y), Format.from_str(y)))
        else:
            out = str(HiFiber(Einsum.from_str(y), Mapping.from_str(y)))
        return "COMPILED"
    except Exception as e:
        return type(e).__name__ + ": " + str(e)[:90]
D = """einsum:
  declaration:
    A: [K, M]
    B: [K, N]
    Z: [M, N]
  expressions:
    - Z[m, n] = A[k, m] * B[k, n]
"""
print("dup rank decl:", c(D.replace("A: [K, M]", "A: [K, K]")))
print("dup rank rank-order:", c(D + "mapping:\n  rank-order:\n    A: [M, M]\n"))
print("undeclared:", c(D.replace("B[k, n]", "C[k, n]")))
print("repeated:", c(D.replace("B[k, n]", "A[k, m]")))
print("repeated out:", c(D.replace("B[k, n]", "Z[m, n]")))
print("diff ranks:", c(D.replace("A[k, m] * B[k, n]", "A[k, m] + B[k, n]")))
P = D + "mapping:\n  partitioning:\n    Z:\n"
print("flatten+other:", c(P + "      (K, M): [flatten(), uniform_shape(3)]\n"))
print("flatten 1 rank:", c(P + "      K: [flatten()]\n"))
print("flatten also part:", c(P + "      K: [uniform_shape(3)]\n      (K, M): [flatten()]\n"))
print("flatten flattened:", c(P + "      (K, M): [flatten()]\n      (KM, N): [flatten()]\n"))
print("nway after occ:", c(P + "      K: [uniform_occupancy(A.3), nway_shape(2)]\n"))
print("nway after occ (3):", c(P + "      K: [uniform_shape(8), uniform_occupancy(A.3), nway_shape(2)]\n"))
print("shape after flatten:", c(P + "      (K, M): [flatten()]\n      KM: [uniform_shape(3)]\n"))
print("nonflatten on tuple:", c(P + "      (K, M): [uniform_shape(3)]\n"))
print("nonflatten on tuple occ:", c(P + "      (K, M): [uniform_occupancy(A.3)]\n"))
print("out-only flattened:", c(P + "      (M, N): [flatten()]\n  loop-order:\n    Z: [K, MN]\n"))
C = """einsum:
  declaration:
    F: [S]
    I: [W]
    O: [Q]
  expressions:
    - O[q] = I[q + s] * F[s]
mapping:
"""
print("project into output:", c(C + "  loop-order:\n    O: [W, S]\n"))
print("flatten index math:", c(C.replace("I: [W]", "I: [W, C]").replace("I[q + s]", "I[q + s, c]").replace("F: [S]", "F: [S, C]").replace("F[s]", "F[s, c]") + "  partitioning:\n    O:\n      (W, C): [flatten()]\n"))
print("flatten index math S:", c(C.replace("F: [S]", "F: [S, C]").replace("F[s]", "F[s, c]").replace("I: [W]", "I: [W, C]").replace("I[q + s]", "I[q + s, c]") + "  partitioning:\n    O:\n      (S, C): [flatten()]\n"))
M = D + """mapping:
  spacetime:
    Z:
      space: []
      time: [M, N, K]
architecture:
  accel:
  - name: level0
    attributes:
      clock_frequency: 10
bindings:
  Y:
  - config: accel
    prefix: tmp/Z
format:
  Z:
    default:
      rank-order: [M, N]
      M:
        format: C
      N:
        format: C
"""
print("no config for einsum (absent key):", c(M, True))
print("no config entry:", c(M.replace("  Y:\n  - config: accel\n    prefix: tmp/Z\n", "  Z:\n  - component: foo\n    bindings: []\n"), True))
print("ok metrics:", c(M.replace("  Y:", "  Z:"), True))
