import glob, re, sys
from teaal.parse import *
from teaal.trans.hifiber import HiFiber
from scope import check
API = {"Tensor","Fiber","Metrics","Traffic","Format","Compute","LeaderFollowerIntersector","SkipAheadIntersector","TwoFingerIntersector","createCanvas","displayCanvas"}
def supplied_for(fn):
    e = Einsum.from_file(fn); m = Mapping.from_file(fn)
    decl = e.get_declaration(); ro = m.get_rank_orders()
    s = set(API)
    outs = []
    for ex in e.get_expressions():
        outs.append(str(next(ex.find_data("output")).children[0]))
    for t, rs in decl.items():
        order = ro.get(t, rs)
        s.add(t + "_" + "".join(order))   # (inputs only, but fine for prototype)
        s.update(rs)
    for ex in e.get_expressions():
        for v in ex.find_data("var"):
            s.add(str(v.children[0]))
        for r in ex.find_data("ijust"): s.add(str(r.children[0]).upper())
        for r in ex.find_data("itimes"): s.add(str(r.children[1]).upper())
    for t, d in m.get_partitioning().items():
        for k, parts in d.items():
            for p in parts:
                for sz in p.find_data("str_sz"): s.add(str(sz.children[0]))
    return s, outs
for fn in sorted(glob.glob("/repo/tests/integration/*.yaml")):
    try:
        objs = [Einsum.from_file(fn), Mapping.from_file(fn), Architecture.from_file(fn), Bindings.from_file(fn), Format.from_file(fn)]
        code = str(HiFiber(*objs))
    except Exception as ex:
        print(fn.split("/")[-1], "COMPILE-ERR", repr(ex)[:80]); continue
    sup, outs = supplied_for(fn)
    # remove outputs from supplied (they must be produced) -- except if also read before produced; prototype: remove all outputs
    decl = objs[0].get_declaration(); ro = objs[1].get_rank_orders()
    for o in outs:
        sup.discard(o + "_" + "".join(ro.get(o, decl[o])))
    try:
        errs = check(code, sup)
    except SyntaxError as ex:
        print(fn.split("/")[-1], "SYNTAX", ex); continue
    print(fn.split("/")[-1], errs[:6])
