from t5 import *
class Canvas:
    def __init__(self, *tensors): self.tensors = [list(t.rank_ids) for t in tensors]; self.acts = []
    def addActivity(self, *points, spacetime=None): self.acts.append((points, spacetime))
cv = {}
def createCanvas(*t):
    c = Canvas(*t); cv["c"] = c; return c
def displayCanvas(c): cv["shown"] = True
env = {"createCanvas": createCanvas, "displayCanvas": displayCanvas}
for st in ["""
  spacetime:
    Z:
      space: [M1, K.coord]
      time: [M0.coord, N]
""", """
  spacetime:
    Z:
      space: [M1.coord, K]
      time: [M0, N.coord]
      opt: slip
""", """
  spacetime:
    Z:
      space: [N]
      time: [M0.coord, M1, K]
"""]:
    y = base + """  partitioning:
    Z:
      M: [uniform_shape(3)]
  loop-order:
    Z: [M1, K, M0, N]
""" + st
    print(run_spec(y, gemm, show=True, extra_env=env, trials=3))
    c = cv["c"]; print(c.tensors, len(c.acts), c.acts[:3], len(set(a[1] for a in c.acts)))
