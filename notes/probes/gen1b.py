import sys
from gen1 import *
from collections import Counter
cnt = Counter()
for seed in range(int(sys.argv[1]), int(sys.argv[2])):
    k, msg, ctx = trial(seed)
    cnt[k] += 1
    if k != "ok":
        expr = [l for l in ctx.splitlines() if l.strip().startswith("- ")][0]
        lo = [l for l in ctx.splitlines() if l.strip().startswith("Z: [") ]
        print(seed, k, msg[:90].replace("\n"," "), "|", expr.strip(), "|", lo[-1].strip() if lo else "")
print(cnt)
