import ast, random, sys, traceback
from collections import Counter
from tm import gen
from teaal.parse import *
from teaal.trans.hifiber import HiFiber

def xref(code):
    tree = ast.parse(code)
    errs = []
    prefix = None; registered = set(); consumable = set(); produced = set(); fiber_traces = set()
    def call_name(n):
        if isinstance(n, ast.Call) and isinstance(n.func, ast.Attribute) and isinstance(n.func.value, ast.Name):
            return n.func.value.id, n.func.attr
        return None, None
    for node in ast.walk(tree):
        if isinstance(node, ast.Call):
            o, a = call_name(node)
            if o == "Metrics" and a == "beginCollect": prefix = node.args[0].value
            if o == "Metrics" and a == "trace":
                kw = {k.arg: k.value.value for k in node.keywords}
                registered.add((node.args[0].value, kw["type_"]))
                if kw.get("consumable"): consumable.add((node.args[0].value, kw["type_"]))
            if a == "trace" and o not in ("Metrics",) and o is not None:
                fiber_traces.add(node.args[0].value)
    files = {f"{prefix}-{r}-{t}.csv" for r, t in registered}
    # sequential pass over top-level statements for filterTrace/traces/numIters
    for st in tree.body:
        for node in ast.walk(st):
            if isinstance(node, ast.Call):
                o, a = call_name(node)
                if o == "Traffic" and a == "filterTrace":
                    i, f, out = [x.value for x in node.args]
                    for x in (i, f):
                        if x not in files and x not in produced: errs.append(("filter-input", x))
                    produced.add(out)
                if o == "Compute" and a == "numIters":
                    x = node.args[0].value
                    if x not in files: errs.append(("numIters", x))
                if o == "Metrics" and a == "consumeTrace":
                    rt = (node.args[0].value, node.args[1].value)
                    if rt not in consumable: errs.append(("consume", rt))
        if isinstance(st, ast.Assign) and isinstance(st.targets[0], ast.Name) and st.targets[0].id == "traces":
            for v in st.value.values:
                if v.value not in files and v.value not in produced: errs.append(("traces", v.value))
    for r, t in registered:
        if t.startswith("eager_") and t not in fiber_traces: errs.append(("eager-unfed", t))
    return errs
if __name__ == "__main__":
    cnt = Counter()
    for seed in range(int(sys.argv[1]), int(sys.argv[2])):
        rng = random.Random(seed)
        y = gen(rng)
        try:
            t = str(HiFiber(Einsum.from_str(y), Mapping.from_str(y), Architecture.from_str(y), Bindings.from_str(y), Format.from_str(y)))
        except Exception as e:
            cnt["rejected"] += 1; continue
        e = xref(t)
        cnt["ok" if not e else "xref-fail"] += 1
        if e and cnt["xref-fail"] <= 3:
            print("=====", seed, e[:4]); print(y[y.index("bindings:"):]); print(t)
    print(cnt)
