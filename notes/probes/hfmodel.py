"""
Prototype reference model of the HiFiber (fibertree) API surface emitted by teaal.
Scratch only -- exploration for DESIGN.md.
"""
import copy


class ModelError(Exception):
    pass


class Payload:
    __slots__ = ("v",)

    def __init__(self, v=0):
        self.v = v.v if isinstance(v, Payload) else v

    @staticmethod
    def val(x):
        return x.v if isinstance(x, Payload) else x

    def __iadd__(self, o):
        self.v = self.v + Payload.val(o)
        return self

    def __ilshift__(self, o):
        self.v = Payload.val(o)
        return self

    def __add__(self, o): return Payload(self.v + Payload.val(o))
    __radd__ = __add__
    def __mul__(self, o): return Payload(self.v * Payload.val(o))
    __rmul__ = __mul__
    def __eq__(self, o): return self.v == Payload.val(o)
    def __hash__(self): return hash(self.v)
    def __repr__(self): return "P(%r)" % (self.v,)


def _default_like(p):
    """default payload for something shaped like p (for unions)"""
    if isinstance(p, FiberBase):
        return Fiber()
    if isinstance(p, tuple):
        return tuple("" if isinstance(e, str) else _default_like(e) for e in p)
    return Payload(0)


class FiberBase:
    """anything iterable as (coord, payload) in increasing coord order"""

    def __and__(self, other): return Lazy(lambda: _isect(self, other), ("and", self, other))
    def __or__(self, other): return Lazy(lambda: _union(self, other), ("or", self, other))

    def project(self, trans_fn, interval=None):
        def gen():
            items = [(trans_fn(c), p) for c, p in self]
            items.sort(key=lambda cp: cp[0])
            for c, p in items:
                if interval is not None and not (interval[0] <= c < interval[1]):
                    continue
                yield c, p
        return Lazy(gen, ("project", self))

    def prune(self, trans_fn):
        def gen():
            for i, (c, p) in enumerate(self):
                if trans_fn(i, c, p):
                    yield c, p
        return Lazy(gen, ("prune", self))

    def leaf_default(self):
        raise NotImplementedError


class Lazy(FiberBase):
    def __init__(self, genf, desc):
        self.genf = genf
        self.desc = desc

    def __iter__(self):
        return self.genf()

    def default(self):
        d = self.desc
        if d[0] == "and":
            return (d[1].default(), d[2].default())
        if d[0] == "or":
            return ("", d[1].default(), d[2].default())
        if d[0] in ("project", "prune"):
            return d[1].default()
        if d[0] == "populate":
            return (d[1].default(), d[2].default())
        raise ModelError("no default")


class Fiber(FiberBase):
    def __init__(self, coords=None, payloads=None, depth_below=None):
        self.d = {}
        # number of ranks below this fiber (0 = leaf payloads); None = unknown
        self.below = depth_below
        if coords is not None:
            for c, p in zip(coords, payloads):
                self.d[c] = p

    # -- construction helpers
    @staticmethod
    def fromLazy(lazy):
        f = Fiber()
        for c, p in lazy:
            f.d[c] = p
        return f

    @staticmethod
    def intersection(*args, style=None):
        nested = args[-1]
        for a in reversed(args[:-1]):
            nested = a & nested
        return nested

    def default(self):
        if self.below is None:
            raise ModelError("unknown fiber depth")
        return Fiber(depth_below=self.below - 1) if self.below > 0 else Payload(0)

    def __iter__(self):
        for c in sorted(self.d):
            yield c, self.d[c]

    def __len__(self):
        return len(self.d)

    def getCoords(self):
        return sorted(self.d)

    def __lshift__(self, other):
        def gen():
            for c, p in other:
                yield c, (self.getPayloadRef(c), p)
        return Lazy(gen, ("populate", self, other))

    def _mk(self):
        return self.default()

    def getPayloadRef(self, *coords, trace=None):
        f = self
        for c in coords:
            if c not in f.d:
                f.d[c] = f._mk()
            f = f.d[c]
        return f

    def getPayload(self, *coords, trace=None):
        f = self
        for c in coords:
            if isinstance(f, Payload):
                raise ModelError("getPayload past leaf")
            if c not in f.d:
                # default for remaining depth
                rem = (f.below or 0) - (len(coords) - 1 - list(coords).index(c))
                # payload type after consuming all coords
                left = (f.below or 0) - (len(coords) - list(coords).index(c) - 1)
                return Fiber(depth_below=left - 1) if left > 0 else Payload(0)
            f = f.d[c]
        return f

    def iterRangeShapeRef(self, start, end, step=1):
        def gen():
            c = start
            while c < end:
                yield c, self.getPayloadRef(c)
                c += step
        return Lazy(gen, ("range", self))

    def trace(self, *a, **k):
        pass

    def __repr__(self):
        return "F{" + ", ".join("%r: %r" % cp for cp in self) + "}"


def _isect(a, b):
    ia, ib = iter(a), iter(b)
    try:
        ca, pa = next(ia)
        cb, pb = next(ib)
        while True:
            if ca == cb:
                yield ca, (pa, pb)
                ca, pa = next(ia)
                cb, pb = next(ib)
            elif ca < cb:
                ca, pa = next(ia)
            else:
                cb, pb = next(ib)
    except StopIteration:
        return


def _union(a, b):
    da, db = a.default, b.default
    ia, ib = iter(a), iter(b)
    ea = next(ia, None)
    eb = next(ib, None)
    while ea is not None or eb is not None:
        if eb is None or (ea is not None and ea[0] < eb[0]):
            yield ea[0], ("A", ea[1], db())
            ea = next(ia, None)
        elif ea is None or eb[0] < ea[0]:
            yield eb[0], ("B", da(), eb[1])
            eb = next(ib, None)
        else:
            yield ea[0], ("AB", ea[1], eb[1])
            ea = next(ia, None)
            eb = next(ib, None)


class Tensor:
    def __init__(self, rank_ids=None, name="", shape=None, root=None):
        self.rank_ids = list(rank_ids)
        self.name = name
        self.shape = shape
        if root is not None:
            self.root = root
        elif not self.rank_ids:
            self.root = Payload(0)
        else:
            self.root = Fiber(depth_below=len(self.rank_ids) - 1)

    # -- I/O helpers for the harness
    @staticmethod
    def fromDict(rank_ids, d, name=""):
        """d: {coord-tuple: value}"""
        t = Tensor(rank_ids=rank_ids, name=name)
        if not rank_ids:
            t.root = Payload(d.get((), 0))
            return t
        for cs, v in d.items():
            f = t.root
            for c in cs[:-1]:
                f = f.getPayloadRef(c)
            f.d[cs[-1]] = Payload(v)
        return t

    def toDict(self, keep_zero=False):
        out = {}
        if not self.rank_ids:
            v = Payload.val(self.root)
            if v != 0 or keep_zero:
                out[()] = v
            return out

        def rec(f, pre, lvl):
            for c, p in f:
                if lvl == len(self.rank_ids) - 1:
                    if not isinstance(p, Payload):
                        raise ModelError("non-payload at leaf of %s: %r" % (self.rank_ids, p))
                    if p.v != 0 or keep_zero:
                        out[pre + (c,)] = p.v
                else:
                    if not isinstance(p, Fiber):
                        raise ModelError("non-fiber above leaf of %s" % (self.rank_ids,))
                    rec(p, pre + (c,), lvl + 1)
        rec(self.root, (), 0)
        return out

    def getRoot(self):
        return self.root

    def getRankIds(self):
        return list(self.rank_ids)

    def setRankIds(self, rank_ids):
        if len(rank_ids) != len(self.rank_ids):
            raise ModelError("setRankIds arity %r -> %r" % (self.rank_ids, rank_ids))
        self.rank_ids = list(rank_ids)

    @staticmethod
    def fromFiber(rank_ids=None, fiber=None, shape=None, name=""):
        if isinstance(fiber, Lazy):
            raise ModelError("fromFiber of lazy fiber")
        t = Tensor(rank_ids=rank_ids, name=name, shape=shape, root=fiber)
        _check_depth(fiber, len(rank_ids))
        return t

    def _items(self):
        """list of (coord-tuple, leaf Payload)"""
        out = []

        def rec(f, pre, lvl):
            if lvl == len(self.rank_ids):
                out.append((pre, f))
                return
            for c, p in f:
                rec(p, pre + (c,), lvl + 1)
        rec(self.root, (), 0)
        return out

    def _build(self, rank_ids, items, merge=False):
        t = Tensor(rank_ids=rank_ids, name=self.name)
        for cs, p in items:
            if not cs:
                t.root = Payload(p)
                continue
            f = t.root
            for c in cs[:-1]:
                f = f.getPayloadRef(c)
            if cs[-1] in f.d:
                if not merge:
                    raise ModelError("duplicate coordinate %r building %r" % (cs, rank_ids))
                f.d[cs[-1]] += p
            else:
                f.d[cs[-1]] = Payload(p)
        return t

    def swizzleRanks(self, rank_ids):
        if sorted(rank_ids) != sorted(self.rank_ids):
            raise ModelError("swizzle %r -> %r" % (self.rank_ids, rank_ids))
        perm = [self.rank_ids.index(r) for r in rank_ids]
        items = [(tuple(cs[i] for i in perm), p) for cs, p in self._items()]
        return self._build(rank_ids, items)

    def _split(self, depth, partfn):
        """partfn(sorted coords of a fiber, fiber) -> list of (upper coord, [coords])"""
        if depth >= len(self.rank_ids):
            raise ModelError("split depth %d of %r" % (depth, self.rank_ids))
        new_ids = self.rank_ids[:depth] + [self.rank_ids[depth] + ".u", self.rank_ids[depth]] + self.rank_ids[depth + 1:]
        t = Tensor(rank_ids=new_ids, name=self.name)

        def rec(f, lvl):
            # returns a deep-copied fiber with the split applied at depth
            nf = Fiber(depth_below=len(new_ids) - 1 - lvl)
            if lvl == depth:
                for up, cs in partfn(sorted(f.d), f):
                    lower = Fiber(depth_below=nf.below - 1)
                    for c in cs:
                        lower.d[c] = copy.deepcopy(f.d[c])
                    if up in nf.d:
                        raise ModelError("dup partition")
                    nf.d[up] = lower
                return nf
            for c, p in f:
                nf.d[c] = rec(p, lvl + 1)
            return nf
        t.root = rec(self.root, 0)
        return t

    def splitUniform(self, step, depth=0, pre_halo=0, post_halo=0):
        if step <= 0:
            raise ModelError("step %r" % (step,))

        def partfn(coords, f):
            parts = {}
            for c in coords:
                # partitions s (multiples of step, s>=0) with s - pre <= c < s + step + post
                lo = c - step - post_halo  # s > lo
                hi = c + pre_halo          # s <= hi
                s = (int(lo // step) + 1) * step
                if s < 0:
                    s = 0
                while s <= hi:
                    parts.setdefault(s, []).append(c)
                    s += step
            return sorted(parts.items())
        return self._split(depth, partfn)

    def splitEqual(self, size, depth=0, pre_halo=0, post_halo=0):
        if pre_halo or post_halo:
            raise ModelError("halo on splitEqual unsupported in prototype")

        def partfn(coords, f):
            return [(coords[i], coords[i:i + size]) for i in range(0, len(coords), size)]
        return self._split(depth, partfn)

    def splitNonUniform(self, splits, depth=0, pre_halo=0, post_halo=0):
        if pre_halo or post_halo:
            raise ModelError("halo on splitNonUniform unsupported in prototype")
        if isinstance(splits, FiberBase):
            bounds = [c for c, _ in splits]
        else:
            bounds = list(splits)

        def partfn(coords, f):
            parts = {}
            for c in coords:
                b = None
                for x in bounds:
                    if x <= c:
                        b = x
                    else:
                        break
                if b is not None:
                    parts.setdefault(b, []).append(c)
            return sorted(parts.items())
        return self._split(depth, partfn)

    def flattenRanks(self, depth=0, levels=1, coord_style="tuple"):
        n = len(self.rank_ids)
        if depth + levels >= n:
            raise ModelError("flatten depth/levels out of range")
        ids = self.rank_ids
        new_ids = ids[:depth] + ["".join(ids[depth:depth + levels + 1])] + ids[depth + levels + 1:]
        items = []
        for cs, p in self._items():
            grp = cs[depth:depth + levels + 1]
            if coord_style == "tuple":
                flat = ()
                for g in grp:
                    flat += g if isinstance(g, tuple) else (g,)
                nc = flat
            elif coord_style == "absolute":
                nc = grp[-1]
            else:
                raise ModelError("coord_style " + coord_style)
            items.append((cs[:depth] + (nc,) + cs[depth + levels + 1:], p))
        return self._build(new_ids, items, merge=(coord_style == "absolute"))

    def mergeRanks(self, depth=0, levels=1, coord_style="absolute"):
        return self.flattenRanks(depth, levels, coord_style)

    def unflattenRanks(self, depth=0, levels=1):
        ids = self.rank_ids
        new_ids = ids[:depth] + [ids[depth] + ".%d" % i for i in range(levels + 1)] + ids[depth + 1:]
        items = []
        for cs, p in self._items():
            c = cs[depth]
            if not isinstance(c, tuple) or len(c) != levels + 1:
                raise ModelError("unflatten of %r with levels %d" % (c, levels))
            items.append((cs[:depth] + tuple(c) + cs[depth + 1:], p))
        return self._build(new_ids, items)

    def __repr__(self):
        return "T(%s_%s %r)" % (self.name, "".join(self.rank_ids), self.root)


def _check_depth(f, n):
    if n == 0:
        if not isinstance(f, Payload):
            raise ModelError("rank-0 tensor from non-payload")
        return
    if not isinstance(f, Fiber):
        raise ModelError("fromFiber of %r" % (type(f),))
    f.below = n - 1
    for c, p in f:
        _check_depth(p, n - 1)
