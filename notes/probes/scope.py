"""prototype definite-assignment analysis"""
import ast, builtins

class Scope(ast.NodeVisitor):
    def __init__(self, supplied):
        self.supplied = set(supplied)
        self.errors = []

    def reads(self, node, bound, local=frozenset()):
        """check all Name loads in expression node are in bound"""
        if isinstance(node, ast.Lambda):
            args = {a.arg for a in node.args.args}
            self.reads(node.body, bound | args)
            return
        if isinstance(node, (ast.ListComp, ast.GeneratorExp, ast.SetComp)):
            b = set(bound)
            for g in node.generators:
                self.reads(g.iter, b)
                b |= self.targets(g.target)
            self.reads(node.elt, b)
            return
        if isinstance(node, ast.Name):
            if isinstance(node.ctx, ast.Load) and node.id not in bound and node.id not in self.supplied and not hasattr(builtins, node.id):
                self.errors.append((node.lineno, node.id))
            return
        for ch in ast.iter_child_nodes(node):
            self.reads(ch, bound)

    def targets(self, t):
        out = set()
        for n in ast.walk(t):
            if isinstance(n, ast.Name):
                out.add(n.id)
        return out

    def block(self, stmts, bound):
        bound = set(bound)
        for s in stmts:
            bound = self.stmt(s, bound)
        return bound

    def stmt(self, s, bound):
        if isinstance(s, ast.Assign):
            self.reads(s.value, bound)
            for t in s.targets:
                if isinstance(t, ast.Name):
                    bound = bound | {t.id}
                elif isinstance(t, ast.Subscript):
                    self.reads(t.value, bound); self.reads(t.slice, bound)
                else:
                    self.errors.append((s.lineno, "weird-target"))
            return bound
        if isinstance(s, ast.AugAssign):
            self.reads(s.value, bound)
            if isinstance(s.target, ast.Name):
                if s.target.id not in bound and s.target.id not in self.supplied:
                    self.errors.append((s.lineno, s.target.id))
            else:
                self.reads(s.target.value, bound); self.reads(s.target.slice, bound)
            return bound
        if isinstance(s, ast.Expr):
            self.reads(s.value, bound); return bound
        if isinstance(s, ast.For):
            self.reads(s.iter, bound)
            inner = bound | self.targets(s.target)
            self.block(s.body, inner)
            if s.orelse: self.errors.append((s.lineno, "for-else"))
            return bound          # zero-trip: nothing new definitely bound
        if isinstance(s, ast.If):
            self.reads(s.test, bound)
            b1 = self.block(s.body, bound)
            b2 = self.block(s.orelse, bound)
            return b1 & b2
        self.errors.append((s.lineno, "unsupported " + type(s).__name__))
        return bound

def check(code, supplied):
    tree = ast.parse(code)
    sc = Scope(supplied)
    sc.block(tree.body, set())
    return sc.errors
