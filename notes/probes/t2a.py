"""prototype: HiFiber tree -> python ast, compare with ast.parse(text) modulo assoc chains"""
import ast
from teaal.hifiber import *
BIN = {OAdd: ast.Add, OSub: ast.Sub, OMul: ast.Mult, ODiv: ast.Div, OFDiv: ast.FloorDiv, OMod: ast.Mod, OAnd: ast.BitAnd, OOr: ast.BitOr, OLtLt: ast.LShift}
CMP = {OEqEq: ast.Eq, OLt: ast.Lt, OIn: ast.In, ONotIn: ast.NotIn}
def num(v):
    if isinstance(v, (int, float)) and v < 0:
        return ast.UnaryOp(ast.USub(), ast.Constant(-v))
    return ast.Constant(v)
def E(e):
    if isinstance(e, EVar): return ast.Name(e.name, ast.Load())
    if isinstance(e, EInt): return num(e.int)
    if isinstance(e, EFloat):
        if e.float == float("inf"): return ast.Call(ast.Name("float", ast.Load()), [ast.Constant("inf")], [])
        if e.float == -float("inf"): return ast.UnaryOp(ast.USub(), ast.Call(ast.Name("float", ast.Load()), [ast.Constant("inf")], []))
        return num(e.float)
    if isinstance(e, EBool): return ast.Constant(e.bool)
    if isinstance(e, EString): return ast.Constant(e.string)
    if isinstance(e, EParens): return E(e.expr)
    if isinstance(e, EBinOp):
        if type(e.op) in BIN: return ast.BinOp(E(e.expr1), BIN[type(e.op)](), E(e.expr2))
        return ast.Compare(E(e.expr1), [CMP[type(e.op)]()], [E(e.expr2)])
    if isinstance(e, EAccess): return ast.Subscript(E(e.obj), E(e.ind), ast.Load())
    if isinstance(e, EField): return ast.Attribute(ast.Name(e.obj, ast.Load()), e.field, ast.Load())
    if isinstance(e, EList): return ast.List([E(x) for x in e.list], ast.Load())
    if isinstance(e, ETuple): return ast.Tuple([E(x) for x in e.elems], ast.Load())
    if isinstance(e, EDict): return ast.Dict([E(k) for k in e.dict], [E(v) for v in e.dict.values()])
    if isinstance(e, EFunc): return ast.Call(ast.Name(e.name, ast.Load()), *args(e.args))
    if isinstance(e, EMethod): return ast.Call(ast.Attribute(E(e.obj), e.name, ast.Load()), *args(e.args))
    if isinstance(e, ELambda):
        return ast.Lambda(ast.arguments([], [ast.arg(a) for a in e.args], None, [], [], None, []), E(e.body))
    if isinstance(e, EComp):
        return ast.ListComp(E(e.elem), [ast.comprehension(ast.Name(e.var, ast.Store()), E(e.iter), [], 0)])
    raise TypeError(type(e))
def args(a):
    pos = [E(x.expr) for x in a if isinstance(x, AJust)]
    kw = [ast.keyword(x.name, E(x.expr)) for x in a if isinstance(x, AParam)]
    return pos, kw
def A(a, ctx):
    if isinstance(a, AVar): return ast.Name(a.name, ctx)
    if isinstance(a, AAccess): return ast.Subscript(E(a.obj), E(a.ind), ctx)
    if isinstance(a, AField): return ast.Attribute(ast.Name(a.obj, ast.Load()), a.field, ctx)
    raise TypeError(type(a))
def P(p):
    if isinstance(p, PVar): return ast.Name(p.var, ast.Store())
    return ast.Tuple([P(x) for x in p.payloads], ast.Store())
def S(s):
    if isinstance(s, SBlock):
        out = []
        for x in s.stmts: out.extend(S(x))
        return out
    if isinstance(s, SAssign): return [ast.Assign([A(s.assn, ast.Store())], E(s.expr))]
    if isinstance(s, SIAssign): return [ast.AugAssign(A(s.assn, ast.Store()), BIN[type(s.op)](), E(s.expr))]
    if isinstance(s, SExpr): return [ast.Expr(E(s.expr))]
    if isinstance(s, SFor): return [ast.For(P(s.payload), E(s.expr), S(s.stmt), [])]
    if isinstance(s, SIf):
        orelse = S(s.else_) if s.else_ is not None else []
        for c, b in reversed(s.elifs):
            orelse = [ast.If(E(c), S(b), orelse)]
        return [ast.If(E(s.if_[0]), S(s.if_[1]), orelse)]
    if isinstance(s, SReturn): return [ast.Return(E(s.expr))]
    if isinstance(s, SFunc):
        return [ast.FunctionDef(s.name, ast.arguments([], [ast.arg(a.name) for a in s.args], None, [], [], None, []), S(s.body), [])]
    raise TypeError(type(s))
ASSOC = (ast.Add, ast.Mult, ast.BitAnd, ast.BitOr)
class Flat(ast.NodeTransformer):
    """normalise chains of one associative operator into a left-nested canonical chain"""
    def visit_BinOp(self, n):
        self.generic_visit(n)
        if isinstance(n.op, ASSOC):
            items = []
            def collect(x):
                if isinstance(x, ast.BinOp) and type(x.op) is type(n.op):
                    collect(x.left); collect(x.right)
                else:
                    items.append(x)
            collect(n)
            out = items[0]
            for it in items[1:]:
                out = ast.BinOp(out, type(n.op)(), it)
            return out
        return n
def norm(stmts):
    m = ast.Module(stmts, [])
    m = Flat().visit(m)
    return ast.dump(m, annotate_fields=True, include_attributes=False)
def compare(hf):
    t1 = norm(S(hf.hifiber))
    t2 = norm(ast.parse(str(hf)).body)
    return t1 == t2, t1, t2
