from teaal.parse import *
from teaal.trans.hifiber import HiFiber
import copy
y = """
einsum:
  declaration:
    A: [M]
    B: [M]
    T: [M]
    Z: [M]
  expressions:
    - T[m] = A[m] * B[m]
    - Z[m] = T[m] * B[m]
mapping:
  spacetime:
    T:
      space: []
      time: [M]
    Z:
      space: []
      time: [M]
architecture:
  accel:
  - name: level0
    attributes:
      clock_frequency: 1000
    local:
    - name: Mul
      class: compute
      attributes:
        type: mul
bindings:
  T:
  - config: accel
    prefix: tmp/T
  - component: Mul
    bindings:
    - op: mul
  Z:
  - config: accel
    prefix: tmp/Z
  - component: Mul
    bindings:
    - op: mul
format:
  Z:
    default:
      rank-order: [M]
      M:
        format: C
"""
objs = [Einsum.from_str(y), Mapping.from_str(y), Architecture.from_str(y), Bindings.from_str(y), Format.from_str(y)]
h = HiFiber(*objs)
out = str(h)
print([l for l in out.splitlines() if "blocks" in l or '"time"] =' in l and 'metrics["time"]' in l])
print(h.fusion.get_blocks())
