import itertools, random, sys, traceback
from teaal.parse import *
from teaal.trans.hifiber import HiFiber
import hfmodel
from hfmodel import Tensor, Fiber, Payload

def comp(y):
    return str(HiFiber(Einsum.from_str(y), Mapping.from_str(y)))

INPUT_NAMES = "ABCDEFGHQ"
def gen_spec(rng):
    nr = rng.randint(1, 4)
    ranks = rng.sample("IJKMNP", nr)
    nterms = rng.choice([1,1,1,2,3])
    out_ranks = [r for r in ranks if rng.random() < 0.6]
    rng.shuffle(out_ranks)
    names = iter(INPUT_NAMES)
    decl = {}
    terms = []
    for t in range(nterms):
        nf = rng.randint(1, 3)
        # each factor gets a subset; union must be all ranks
        while True:
            subs = [[r for r in ranks if rng.random() < 0.6] for _ in range(nf)]
            cov = set().union(*map(set, subs))
            if cov | set(out_ranks) == set(ranks) and all(r in cov for r in ranks if r not in out_ranks):
                # output-only ranks allowed only if not covered... keep simple: require cov == ranks mostly
                if cov == set(ranks) or rng.random() < 0.15:
                    break
        facs = []
        for s in subs:
            rng.shuffle(s)
            n = next(names)
            decl[n] = list(s)
            facs.append((n, list(s)))
        take = None
        if nf >= 2 and rng.random() < 0.25:
            take = rng.randrange(nf)
        terms.append((facs, take))
    decl["Z"] = list(out_ranks)
    # mapping
    lo = list(ranks); rng.shuffle(lo)
    ro = {}
    for n, rs in decl.items():
        if rng.random() < 0.5:
            p = list(rs); rng.shuffle(p); ro[n] = p
    return dict(ranks=ranks, decl=decl, terms=terms, out=out_ranks, lo=lo if rng.random()<0.8 else None, ro=ro)

def to_yaml(s):
    def acc(n, rs): return f"{n}[{', '.join(r.lower() for r in rs)}]"
    ts = []
    for facs, take in s["terms"]:
        if take is None:
            ts.append(" * ".join(acc(n, rs) for n, rs in facs))
        else:
            ts.append("take(" + ", ".join(acc(n, rs) for n, rs in facs) + f", {take})")
    y = "einsum:\n  declaration:\n"
    for n, rs in s["decl"].items():
        y += f"    {n}: [{', '.join(rs)}]\n"
    y += "  expressions:\n    - " + acc("Z", s["out"]) + " = " + " + ".join(ts) + "\n"
    y += "mapping:\n"
    if s["ro"]:
        y += "  rank-order:\n"
        for n, p in s["ro"].items():
            y += f"    {n}: [{', '.join(p)}]\n"
    if s["lo"] is not None:
        y += f"  loop-order:\n    Z: [{', '.join(s['lo'])}]\n"
    return y

def evaluate(s, ext, data):
    out = {}
    ranks = s["ranks"]
    for assign in itertools.product(*[range(ext[r]) for r in ranks]):
        a = dict(zip(ranks, assign))
        tot = 0; any_ = False
        for facs, take in s["terms"]:
            vals = []
            for n, rs in facs:
                v = data[n].get(tuple(a[r] for r in rs), 0)
                vals.append(v)
            if all(v != 0 for v in vals):
                if take is None:
                    p = 1
                    for v in vals: p *= v
                else:
                    p = vals[take]
                tot += p
        if tot:
            k = tuple(a[r] for r in s["out"])
            out[k] = out.get(k, 0) + tot
    return out

def trial(seed):
    rng = random.Random(seed)
    s = gen_spec(rng)
    y = to_yaml(s)
    try:
        code = comp(y)
    except Exception as e:
        return ("compile-error", type(e).__name__ + ": " + str(e)[:100], y)
    ext = {r: rng.randint(1, 4) for r in s["ranks"]}
    data = {}
    env = dict(ext)
    for n, rs in s["decl"].items():
        if n == "Z": continue
        d = {}
        for cs in itertools.product(*[range(ext[r]) for r in rs]):
            if rng.random() < 0.6 or not rs: d[cs] = rng.randint(1, 4)
        data[n] = d
        order = s["ro"].get(n, rs)
        perm = [rs.index(r) for r in order]
        env[n + "_" + "".join(order)] = Tensor.fromDict(order, {tuple(cs[i] for i in perm): v for cs, v in d.items()}, n)
    g = {"Tensor": Tensor, "Fiber": Fiber}; g.update(env)
    try:
        exec(compile(code, "<h>", "exec"), g)
    except Exception as e:
        return ("run-error", type(e).__name__ + ": " + str(e)[:200], y + "\n" + code)
    zo = s["ro"].get("Z", s["out"])
    Z = g.get("Z_" + "".join(zo))
    if Z is None: return ("no-output", "", y + "\n" + code)
    exp = evaluate(s, ext, data)
    perm = [s["out"].index(r) for r in zo]
    exp = {tuple(k[i] for i in perm): v for k, v in exp.items()}
    if Z.toDict() != exp or Z.rank_ids != list(zo):
        return ("mismatch", f"{Z.toDict()} vs {exp} ext={ext}", y + "\n" + code)
    return ("ok", "", "")

if __name__ == "__main__":
    from collections import Counter
    cnt = Counter(); shown = Counter()
    for seed in range(int(sys.argv[1]), int(sys.argv[2])):
        k, msg, ctx = trial(seed)
        cnt[k] += 1
        key = (k, msg.split(":")[0][:40], msg[:60])
        if k != "ok" and shown[key[:2]] < 2:
            shown[key[:2]] += 1
            print("=====", seed, k, msg); print(ctx)
    print(cnt)
