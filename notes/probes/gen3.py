import itertools, random, sys
from gen1 import *
from gen2 import to_yaml2

def gen_occ_spec(rng):
    while True:
        s = gen_spec(rng)
        if len(s["terms"]) == 1 and s["terms"][0][1] is None and set().union(*[set(rs) for _, rs in s["terms"][0][0]]) == set(s["ranks"]):
            break
    parts = {}
    facs = s["terms"][0][0]
    for r in s["ranks"]:
        if rng.random() < 0.6:
            holders = [n for n, rs in facs if r in rs]
            ps = []
            nshape = rng.choice([0, 0, 1])
            for i in range(nshape):
                ps.append(("uniform_shape", rng.randint(2, 5)))
            nocc = rng.randint(1, 2)
            for i in range(nocc):
                ps.append(("uniform_occupancy", f"{rng.choice(holders)}.{rng.randint(1, 3)}"))
            parts[r] = ps
    s["parts"] = parts
    lo = []
    for r in s["ranks"]:
        if r in parts:
            lo += [r + str(i) for i in range(len(parts[r]), -1, -1)]
        else:
            lo.append(r)
    groups = {}
    for x in lo:
        groups.setdefault(x.rstrip("0123456789"), []).append(x)
    seq = [k for k, v in groups.items() for _ in v]
    rng.shuffle(seq)
    lo = [groups[k].pop(0) for k in seq]
    s["lo"] = lo if rng.random() < 0.9 else None
    s["ordered"] = True
    return s

def to_yaml3(s):
    y = to_yaml(s)
    if s["parts"]:
        p = "  partitioning:\n    Z:\n"
        for r, ps in s["parts"].items():
            p += f"      {r}: [" + ", ".join(f"{k}({v})" for k, v in ps) + "]\n"
        y = y.replace("mapping:\n", "mapping:\n" + p)
    return y

import gen2
def trial3(seed):
    rng = random.Random(seed)
    s = gen_occ_spec(rng)
    y = to_yaml3(s)
    try:
        code = comp(y)
    except Exception as e:
        import traceback
        return ("compile-error", type(e).__name__ + ": " + str(e)[:100], y + traceback.format_exc()[-600:], s)
    ext = {r: rng.randint(1, 9) for r in s["ranks"]}
    data = {}
    env = dict(ext)
    for n, rs in s["decl"].items():
        if n == "Z": continue
        d = {}
        for cs in itertools.product(*[range(ext[r]) for r in rs]):
            if rng.random() < 0.5 or not rs: d[cs] = rng.randint(1, 4)
        data[n] = d
        order = s["ro"].get(n, rs)
        perm = [rs.index(r) for r in order]
        env[n + "_" + "".join(order)] = Tensor.fromDict(order, {tuple(cs[i] for i in perm): v for cs, v in d.items()}, n)
    g = {"Tensor": Tensor, "Fiber": Fiber}; g.update(env)
    try:
        exec(compile(code, "<h>", "exec"), g)
    except Exception as e:
        import traceback
        return ("run-error", type(e).__name__ + ": " + str(e)[:200], y + "\n" + code + traceback.format_exc()[-500:], s)
    zo = s["ro"].get("Z", s["out"])
    Z = g.get("Z_" + "".join(zo))
    if Z is None: return ("no-output", "", y + "\n" + code, s)
    exp = evaluate(s, ext, data)
    perm = [s["out"].index(r) for r in zo]
    exp = {tuple(k[i] for i in perm): v for k, v in exp.items()}
    if Z.toDict() != exp or Z.rank_ids != list(zo):
        return ("mismatch", f"{Z.toDict()} vs {exp} ext={ext}", y + "\n" + code, s)
    return ("ok", "", "", s)

if __name__ == "__main__":
    from collections import Counter
    cnt = Counter(); shown = Counter()
    for seed in range(int(sys.argv[1]), int(sys.argv[2])):
        k, msg, ctx, s = trial3(seed)
        cnt[k] += 1
        key = (k, msg[:40])
        if k != "ok" and shown[key] < 1 and sum(shown.values()) < 10:
            shown[key] += 1
            print("=====", seed, k, msg); print(ctx)
    print(cnt)
