import itertools, random
from gen1 import comp, evaluate
from hfmodel import Tensor, Fiber
def run_spec(y, spec, trials=30, seed=0, show=False, extra_env=None):
    """spec: dict(ranks, decl, terms, out) for evaluate; inputs declared order"""
    try:
        code = comp(y)
    except Exception as e:
        return "compile-error " + type(e).__name__ + " " + str(e)[:150]
    if show: print(code)
    rng = random.Random(seed)
    for t in range(trials):
        ext = {r: rng.randint(1, 7) for r in spec["ranks"]}
        env = dict(ext); data = {}
        for n, rs in spec["decl"].items():
            if n == spec.get("outname", "Z"): continue
            d = {}
            for cs in itertools.product(*[range(ext[r]) for r in rs]):
                if rng.random() < 0.5 or not rs: d[cs] = rng.randint(1, 4)
            data[n] = d
            env[n + "_" + "".join(rs)] = Tensor.fromDict(rs, d, n)
        g = {"Tensor": Tensor, "Fiber": Fiber}; g.update(env)
        if extra_env: g.update(extra_env)
        try:
            exec(code, g)
        except Exception as e:
            import traceback
            return "run-error " + repr(e)[:200] + traceback.format_exc()[-400:]
        exp = evaluate(spec, ext, data)
        got = g["Z_" + "".join(spec["out"])].toDict()
        if got != exp:
            return f"mismatch ext={ext} data={data} got={got} exp={exp}"
    return "ok"

gemm = dict(ranks=["K","M","N"], decl={"A":["K","M"],"B":["K","N"],"Z":["M","N"]}, terms=[([("A",["K","M"]),("B",["K","N"])], None)], out=["M","N"])
base = """
einsum:
  declaration:
    A: [K, M]
    B: [K, N]
    Z: [M, N]
  expressions:
    - Z[m, n] = A[k, m] * B[k, n]
mapping:
"""
if __name__ == "__main__":
    print(run_spec(base + """  partitioning:
    Z:
      (K, M): [flatten()]
  loop-order:
    Z: [KM, N]
""", gemm, show=True))
    print(run_spec(base + """  partitioning:
    Z:
      (M, K): [flatten()]
      MK: [uniform_occupancy(A.3)]
  loop-order:
    Z: [MK1, N, MK0]
""", gemm, show=False))
    print(run_spec(base + """  partitioning:
    Z:
      (M, K): [flatten()]
      MK: [uniform_occupancy(A.3), uniform_occupancy(A.2)]
  loop-order:
    Z: [MK2, MK1, N, MK0]
""", gemm, show=False))
    print(run_spec(base + """  partitioning:
    Z:
      K: [uniform_shape(4)]
      (M, K0): [flatten()]
      MK0: [uniform_occupancy(A.5)]
  loop-order:
    Z: [K1, MK01, N, MK00]
""", gemm, show=False))
    print(run_spec(base + """  partitioning:
    Z:
      M: [uniform_shape(6)]
      K: [uniform_occupancy(A.4)]
      (M0, K0): [flatten()]
      M0K0: [uniform_occupancy(A.5)]
  loop-order:
    Z: [M1, K1, M0K01, N, M0K00]
""", gemm, show=False))
    print(run_spec(base + """  partitioning:
    Z:
      (M, N): [flatten()]
  loop-order:
    Z: [K, MN]
""", gemm, show=True))
