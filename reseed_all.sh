#!/bin/bash
# usage: reseed_all.sh [parallelism]  -- re-runs, for every confirmed seeded change, the check(s) recorded as catching it
# (quick tier, seed 1) against a scratch copy of /repo with the patch applied; prints one line per seed.
cd "$(dirname "$0")"
P=${1:-2}
one() {
  id=$1
  checks=$(/venv/bin/python - "$id" <<'PY'
import json,sys
m=json.load(open('/verif/seeded/%s/meta.json'%sys.argv[1]))
runs=m.get("confirmed",{}).get("checks_run",[])
hit=[r.split(":")[0] for r in runs if r.endswith("exit1")]
over=json.load(open('/verif/seeded/catching.json')).get(sys.argv[1]) if __import__('os').path.exists('/verif/seeded/catching.json') else None
print(" ".join(over or hit or [sys.argv[1][:3]]))
PY
)
  D=$(mktemp -d /dev/shm/rs.XXXXXX)
  rsync -a --exclude .git --exclude '*.egg-info' /repo/ $D/
  (cd $D && patch -p1 -s < /verif/seeded/$id/patch.diff) || { echo "$id PATCH-FAILS"; rm -rf $D; return; }
  res=""
  for c in $checks; do
    out=$(VERIF_REPO=$D VERIF_EVIDENCE_DIR=$D/ev /venv/bin/python -m vf.run $c --tier ${TIER:-quick} 2>&1); rc=$?
    res="$res $c:exit$rc"
    [ $rc -eq 1 ] && break
  done
  rm -rf $D
  echo "$id$res"
}
export -f one
ls seeded | grep "^C" | grep -E "${FILTER:-.}" | xargs -P $P -I{} bash -c 'one {}'
