"""
Dense evaluation of Einsums directly from the specification value.

Independent of the compiler (never touches a lark tree) and of the HiFiber
model.  Tensors are maps coordinate-tuple (in *declared* rank order) -> value;
only non-zero values are kept.
"""
import itertools

from . import spec as S


def eval_iexpr(ie, env):
    return sum(c * env[v] for c, v in ie)


def eval_expr(expr, tensors, scalars, extents):
    """
    tensors: {name: {coords(declared order): value}}; scalars: {name: value}
    extents: {RANK: int} for every index variable (upper-cased)
    returns the output map (declared order of the output = order written in the
    expression is NOT assumed: the caller passes the declaration to reorder)
    """
    vs = S.expr_vars(expr)
    out = {}
    ranges = [range(extents[v.upper()]) for v in vs]
    for assign in itertools.product(*ranges):
        env = dict(zip(vs, assign))
        total = 0
        for term in expr["terms"]:
            vals = []
            present = True
            for f in term["factors"]:
                if "t" in f:
                    key = tuple(eval_iexpr(ie, env) for ie in f["idx"])
                    v = tensors[f["t"]].get(key, 0)
                    if v == 0:
                        present = False
                        break
                    vals.append(v)
                else:
                    vals.append(scalars[f["v"]])
            if not present:
                continue
            if term.get("take") is None:
                p = 1
                for v in vals:
                    p *= v
            else:
                p = vals[term["take"]]
            total += p
        if total:
            k = tuple(eval_iexpr(ie, env) for ie in expr["out"][1])
            out[k] = out.get(k, 0) + total
    return out


def eval_spec(spec, inputs, scalars, extents):
    """
    Evaluate all Einsums in order.  inputs: {name: {coords in declared order: value}}.
    Returns {name: map in declared order} for every output.  Accesses are
    positional in the *declared* rank order (as the compiler reads them).
    """
    tensors = {n: dict(d) for n, d in inputs.items()}
    results = {}
    for expr in spec["exprs"]:
        name = S.out_name(expr)
        for t in S.expr_tensors(expr):
            if t not in tensors:
                tensors[t] = {}
        raw = eval_expr(expr, tensors, scalars, extents)
        tensors[name] = raw
        results[name] = raw
    return results


def permute(d, from_order, to_order):
    perm = [from_order.index(r) for r in to_order]
    return {tuple(k[i] for i in perm): v for k, v in d.items()}
