"""
D_metrics: constructed architecture / bindings / format sections for generated Einsums (DESIGN.md 3.1).

What the compiler accepts here is under-documented, so this is construction plus an acceptance step: the checks drop
(and count) specifications the compiler refuses.  The loop-concordant rank order needed by the format section is obtained
from the compiler's own LoopOrder.apply - that is input construction, not an oracle.
"""
import copy

from hypothesis import strategies as st

from . import spec as S
from . import gen


PRE_ORDERS = {}


def concordant_orders(spec):
    """{einsum output: {tensor: [ranks in loop-concordant, partitioned order]}} computed with the compiler's IR"""
    from . import execute  # noqa: F401  (puts the repo on sys.path)
    from teaal.parse import Einsum, Mapping
    from teaal.ir.program import Program
    s2 = dict(spec, extra={})
    y = S.to_yaml(s2)
    prog = Program(Einsum.from_str(y), Mapping.from_str(y))
    out = {}
    for i, e in enumerate(spec["exprs"]):
        prog.add_einsum(i)
        per = {}
        pre = {}
        for tensor in prog.get_equation().get_tensors():
            prog.apply_all_partitioning(tensor)
            pre[tensor.root_name()] = list(tensor.get_ranks())      # partitioned, before the loop-order swizzle
            prog.get_loop_order().apply(tensor)
            per[tensor.root_name()] = list(tensor.get_ranks())
        PRE_ORDERS[S.out_name(e)] = pre
        out[S.out_name(e)] = (per, list(prog.get_loop_order().get_ranks()))
        prog.reset()
    return out


def lvl(name, n):
    return name if n == 0 else "%s[0..%d]" % (name, n)


@st.composite
def metrics_einsums(draw, n_min=1, n_max=1, max_vars=3, allow_partition=True):
    """a cascade of simple product Einsums with explicit loop orders and spacetime for every Einsum"""
    n = draw(st.integers(n_min, n_max))
    kind = draw(st.sampled_from(["plain"] * 8 + ["affine", "flatten", "flatten", "lf3", "lf3", "flatmerge", "lf2", "lf2"])) if n_min == 1 else "plain"
    if n > 1 and kind != "plain" and draw(st.integers(0, 3)) > 0:
        kind = "plain"         # (the special kinds are single Einsums: keep cascades frequent)
    if kind == "lf3":
        # three tensors co-iterated at one rank (leader-follower intersection of three fibers, any of them leading)
        pl = gen.plain
        shared = "k"
        own = ["m", "n", "p"]
        facs, decl, outv = [], [], []
        for name, o in zip("ABC", own):
            rs = [shared] + ([o] if draw(st.integers(0, 7)) > 0 else [])
            rs = list(draw(st.permutations(rs)))
            decl.append([name, [r.upper() for r in rs]])
            facs.append({"t": name, "idx": [pl(r) for r in rs]})
            if len(rs) > 1 and draw(st.integers(0, 3)) > 0:
                outv.append(o)
        facs = list(draw(st.permutations(facs)))
        decl.append(["Z", [v.upper() for v in outv]])
        spec = {"decl": decl, "exprs": [{"out": ["Z", [pl(v) for v in outv]], "terms": [{"take": None, "factors": facs}]}],
                "rank_order": {}, "loop_order": {}, "partitioning": {}, "spacetime": {}, "extra": {}}
        vs = [v.upper() for v in S.expr_vars(spec["exprs"][0])]
        lo = list(draw(st.permutations(vs)))
        if draw(st.booleans()):
            lo = ["K"] + [r for r in lo if r != "K"]       # the shared rank outermost: the followers' payloads are fibers
        spec["loop_order"]["Z"] = lo
        k = draw(st.integers(0, len(lo)))
        sp_ = lo[:k] if draw(st.booleans()) else []
        spec["spacetime"]["Z"] = {"space": sp_, "time": [r for r in lo if r not in sp_]}
        spec["hint"] = {"isect": [["K", ["A", "B", "C"]]], "type": "leader-follower"}
        return spec, {}
    if kind == "lf2":
        # two tensors that share TWO ranks (K, J; K optionally split): one leader-follower intersector can be bound to several
        # ranks / levels of the same Einsum, each with its own leader
        pl = gen.plain
        a_r = ["k", "j"] + (["m"] if draw(st.integers(0, 3)) > 0 else [])
        b_r = ["k", "j"] + (["n"] if draw(st.integers(0, 3)) > 0 else [])
        a_r, b_r = list(draw(st.permutations(a_r))), list(draw(st.permutations(b_r)))
        outv = [v for v in ("m", "n") if v in a_r + b_r and draw(st.integers(0, 3)) > 0]
        if draw(st.integers(0, 3)) == 0:
            outv.append("j")
        outv = list(draw(st.permutations(outv)))
        facs = [{"t": "A", "idx": [pl(r) for r in a_r]}, {"t": "B", "idx": [pl(r) for r in b_r]}]
        if draw(st.booleans()):
            facs.reverse()
        decl = [["A", [r.upper() for r in a_r]], ["B", [r.upper() for r in b_r]], ["Z", [v.upper() for v in outv]]]
        spec = {"decl": decl, "exprs": [{"out": ["Z", [pl(v) for v in outv]], "terms": [{"take": None, "factors": facs}]}],
                "rank_order": {}, "loop_order": {}, "partitioning": {}, "spacetime": {}, "extra": {}}
        groups = [[v.upper()] for v in S.expr_vars(spec["exprs"][0])]
        split = draw(st.sampled_from([None, "uniform_shape(2)", "uniform_occupancy(A.2)", "uniform_occupancy(B.2)"]))
        if split:
            spec["partitioning"] = {"Z": [["K", [split]]]}
            groups = [g if g != ["K"] else ["K1", "K0"] for g in groups]
        lo = draw(gen.interleave(list(draw(st.permutations(groups)))))
        spec["loop_order"]["Z"] = lo
        k = draw(st.integers(0, len(lo)))
        sp_ = lo[:k] if draw(st.booleans()) else []
        spec["spacetime"]["Z"] = {"space": sp_, "time": [r for r in lo if r not in sp_]}
        spec["hint"] = {"isect": [], "type": "leader-follower", "isect_many": True}
        return spec, {}
    if kind == "flatmerge":
        # an input with two ranks that are adjacent in its declaration flattened statically, a loop order that needs the flattened
        # tensor swizzled, and (hint) a merger bound to that swizzle
        pl = gen.plain
        names = list(draw(st.permutations(["M", "K", "N", "P"])))[:draw(st.integers(3, 4))]
        i = draw(st.integers(0, len(names) - 2))
        pair = names[i:i + 2]
        rest = [r for r in names if r not in pair]
        outr = list(draw(gen.subset(rest)))
        facs = [{"t": "A", "idx": [pl(r.lower()) for r in names]}]
        decl = [["A", list(names)]]
        if draw(st.booleans()):
            br = list(draw(gen.subset(names, min_size=1)))
            decl.append(["B", br])
            facs.insert(draw(st.integers(0, 1)), {"t": "B", "idx": [pl(r.lower()) for r in br]})
        decl.append(["Z", outr])
        spec = {"decl": decl, "exprs": [{"out": ["Z", [pl(r.lower()) for r in outr]], "terms": [{"take": None, "factors": facs}]}],
                "rank_order": {}, "loop_order": {}, "partitioning": {"Z": [["(%s, %s)" % tuple(pair), ["flatten()"]]]},
                "spacetime": {}, "extra": {}}
        lo = list(draw(st.permutations(["".join(pair)] + rest)))
        spec["loop_order"]["Z"] = lo
        k = draw(st.integers(0, len(lo)))
        sp_ = lo[:k] if draw(st.booleans()) else []
        spec["spacetime"]["Z"] = {"space": sp_, "time": [r for r in lo if r not in sp_]}
        spec["hint"] = {"merger": True}
        return spec, {}
    if kind == "affine":
        # a convolution: followers of a leader-follower intersector may need projection
        a, b = draw(st.sampled_from([1, 1, 2])), draw(st.sampled_from([1, 1, 2]))
        pl = gen.plain
        facs = [{"t": "I", "idx": [[[a, "q"], [b, "s"]]]}, {"t": "F", "idx": [pl("s")]}]
        if draw(st.booleans()):
            facs.reverse()
        spec = {"decl": [["F", ["S"]], ["I", ["W"]], ["Z", ["Q"]]],
                "exprs": [{"out": ["Z", [pl("q")]], "terms": [{"take": None, "factors": facs}]}],
                "rank_order": {}, "loop_order": {}, "partitioning": {}, "spacetime": {}, "extra": {}}
        lo = list(draw(st.permutations(["Q", "S"])))
        spec["loop_order"]["Z"] = lo
        k = draw(st.integers(0, 2))
        spec["spacetime"]["Z"] = {"space": lo[:k] if draw(st.booleans()) else [], "time": None}
        sp_ = spec["spacetime"]["Z"]["space"]
        spec["spacetime"]["Z"]["time"] = [r for r in lo if r not in sp_]
        spec["affine_extents"] = {"a": a, "b": b}
        if lo == ["Q", "S"]:
            spec["hint"] = {"isect": [["S", ["I", "F"]]], "type": None, "leaders": {"S": ["F"]}}
        return spec, {}
    if kind == "flatten":
        c = draw(gen.case_flat(max_extent=3, allow_scalars=False))
        spec = c["spec"]
        if spec["loop_order"].get("Z"):
            lo = spec["loop_order"]["Z"]
            k = draw(st.integers(0, len(lo)))
            spec["spacetime"]["Z"] = {"space": lo[:k] if draw(st.booleans()) else [], "time": None}
            sp_ = spec["spacetime"]["Z"]["space"]
            spec["spacetime"]["Z"]["time"] = [r for r in lo if r not in sp_]
            spec["rank_order"] = {}
            if "occupancy" not in repr(spec["partitioning"]):
                spec["hint"] = {"merger": True}       # a merger in front of the statically flattened tensor, if it needs a swizzle
            return spec, dict(c.get("sizes") or {})
    if n == 1 and draw(st.booleans()):
        spec = draw(gen.spec_plain(max_terms=1, allow_take=False, allow_output_only=False, allow_scalars=False,
                                   allow_rank0=False, max_vars=max_vars, max_factors=3))
        part_info = {"Z": (spec["exprs"][0], [v.upper() for v in S.expr_vars(spec["exprs"][0])])}
    else:
        spec, part_info = draw(gen.cascade(n_min=n, n_max=n, max_vars=max_vars))
        # product Einsums only (leader-follower intersection and most of the metrics code assume one term)
        for e in spec["exprs"]:
            if len(e["terms"]) > 1:
                e["terms"] = e["terms"][:1]
        # drop declarations that are no longer used
        used = set(S.outputs(spec)) | set(t for e in spec["exprs"] for t in S.expr_tensors(e))
        spec["decl"] = [d for d in spec["decl"] if d[0] in used]
        spec["rank_order"] = {k: v for k, v in spec["rank_order"].items() if k in used}
        part_info = {S.out_name(e): (e, [v.upper() for v in S.expr_vars(e)]) for e in spec["exprs"]}
    spec["rank_order"] = {}
    sizes = {}
    all_space = draw(st.integers(0, 3)) == 0
    for out, (expr, vs) in part_info.items():
        vs = [v.upper() for v in S.expr_vars(expr)]
        groups = []
        parts = []
        carried = [v.upper() for v in gen.input_carried_vars(expr)]
        for r in vs:
            # (partitioning only in single-Einsum specs: a format whose rank order names another Einsum's partition
            #  levels makes the compiler fail with NetworkXError while scanning the tensor's formats)
            if allow_partition and len(part_info) == 1 and r in carried and draw(st.integers(0, 3)) == 0:
                k = draw(st.integers(1, 2))
                dirs = ["uniform_shape(%d)" % draw(st.integers(1, 4)) for _ in range(k)]
                if draw(st.integers(0, 2)) == 0:
                    # an occupancy (dynamic) level, alone or beneath one shape level
                    leaders = gen.holders(expr, r.lower())
                    dirs = dirs[:k - 1] + ["uniform_occupancy(%s.%d)" % (draw(st.sampled_from(leaders)), draw(st.integers(1, 3)))]
                parts.append([r, dirs])
                groups.append(gen.levels_of(r, k))
            else:
                groups.append([r])
        if parts:
            spec["partitioning"][out] = parts
        if not groups:
            continue
        lo = draw(gen.interleave(list(draw(st.permutations(groups)))))
        spec["loop_order"][out] = lo
        k = draw(st.integers(0, len(lo)))
        if all_space:
            k = len(lo)        # every loop rank spatial: empty temporal prefix, so consecutive Einsums can be fused
        spec["spacetime"][out] = {"space": lo[:k] if (all_space or draw(st.booleans())) else [], "time": None}
        sp = spec["spacetime"][out]["space"]
        spec["spacetime"][out]["time"] = [r for r in lo if r not in sp]
    return spec, sizes


@st.composite
def hardware_for(draw, spec, configs=("accel",), force=None):
    """architecture, bindings and format for a spec produced by metrics_einsums"""
    force = force or {}
    orders = concordant_orders(spec)
    outs = S.outputs(spec)
    decl = S.decl_of(spec)
    arch = {}
    comp_names = {}
    n1 = draw(st.sampled_from([0, 0, 1, 3]))
    n2 = draw(st.sampled_from([0, 1, 7]))
    buf_class = draw(st.sampled_from(["Buffet", "Buffet", "Cache"]))
    isect_type = draw(st.sampled_from([None, "two-finger", "skip-ahead", "leader-follower", "leader-follower"]))
    hint = spec.get("hint") or {}
    if hint.get("type"):
        isect_type = hint["type"]
    elif hint.get("isect") and isect_type is None:
        isect_type = "leader-follower"
    has_seq = draw(st.integers(0, 2)) == 0
    has_merger = draw(st.integers(0, 2)) == 0
    if not has_merger and spec.get("partitioning") and "occupancy" not in repr(spec["partitioning"]):
        has_merger = draw(st.integers(0, 3)) > 0       # mergers in front of statically partitioned / flattened tensors
    has_merger = has_merger or bool(hint.get("merger"))
    has_reg = draw(st.integers(0, 1)) == 0
    mrg_inputs = draw(st.sampled_from([2, 64, "inf"]))
    mrg_radix = draw(st.sampled_from([2, 64, "inf"]))
    freq = draw(st.sampled_from([1000, 2048, 500000000]))
    bw_mem = draw(st.sampled_from([128, 512, 8796093022208]))
    bw_buf = draw(st.sampled_from([256, 1024]))
    depth = draw(st.sampled_from([1024, "inf", 64]))
    for ci, cfg in enumerate(configs):
        if ci:
            # every configuration has its own clock and bandwidths
            freq = draw(st.sampled_from([1000, 3000, 2048, 500000000]))
            bw_mem = draw(st.sampled_from([128, 512, 8796093022208]))
            n2 = draw(st.sampled_from([0, 1, 7]))
        sfx = "" if len(configs) == 1 else cfg[-1].upper()
        names = {"mem": "Mem" + sfx, "buf": "Buf" + sfx, "mul": "Mul" + sfx, "add": "Add" + sfx,
                 "isect": "Isect" + sfx, "seq": "Seq" + sfx, "mrg": "Mrg" + sfx, "reg": "Reg" + sfx}
        comp_names[cfg] = names
        pe_local = [{"name": names["mul"], "class": "Compute", "attributes": {"type": "mul"}},
                    {"name": names["add"], "class": "Compute", "attributes": {"type": "add"}}]
        if isect_type:
            pe_local.append({"name": names["isect"], "class": "Intersector", "attributes": {"type": isect_type}})
        if has_seq:
            pe_local.append({"name": names["seq"], "class": "Sequencer", "attributes": {"num_ranks": 8}})
        chip_local = [{"name": names["buf"], "class": buf_class,
                       "attributes": {"width": 64, "depth": depth, "bandwidth": bw_buf}}]
        if has_merger:
            chip_local.append({"name": names["mrg"], "class": "Merger",
                               "attributes": {"inputs": mrg_inputs, "comparator_radix": mrg_radix, "outputs": 1,
                                              "order": "fifo", "reduce": False}})
        if has_reg:
            pe_local.append({"name": names["reg"], "class": "Buffet", "attributes": {"width": 32, "depth": 128, "bandwidth": 512}})
        arch[cfg] = [{
            "name": "System" + sfx, "attributes": {"clock_frequency": freq},
            "local": [{"name": names["mem"], "class": "DRAM", "attributes": {"bandwidth": bw_mem}}],
            "subtree": [{
                "name": lvl("Chip" + sfx, n1),
                "local": chip_local,
                "subtree": [{"name": lvl("PE" + sfx, n2), "local": pe_local}]}]}]
    # ---- format: one format per tensor and Einsum-layout; tensors used with different layouts get several formats
    fmt = {}
    fmt_name = {}     # (einsum, tensor) -> format name
    for out in outs:
        per, lo = orders[out]
        for t, rs in per.items():
            fmt.setdefault(t, {})
            found = None
            for fname, f in fmt[t].items():
                if f["rank-order"] == rs:
                    found = fname
            if found is None:
                found = "default" if not fmt[t] else "layout%d" % len(fmt[t])
                f = {"rank-order": list(rs)}
                for r in rs:
                    rf = {"format": draw(st.sampled_from(["U", "C"]))}
                    if draw(st.integers(0, 3)) > 0:
                        rf["cbits"] = draw(st.sampled_from([0, 32, 64]))
                    if draw(st.integers(0, 4)) > 0:
                        rf["pbits"] = draw(st.sampled_from([0, 32, 64]))
                    if draw(st.sampled_from([False] * 5 + [True])):
                        rf["layout"] = draw(st.sampled_from(["interleaved", "interleaved", "contiguous"]))
                    f[r] = rf
                fmt[t][found] = f
            fmt_name[(out, t)] = found
    # ---- bindings
    bindings = {}
    memory_only = draw(st.integers(0, 5)) == 0     # only memory traffic is timed (one shared, non-functional component)
    one_cfg = draw(st.sampled_from(list(configs))) if draw(st.booleans()) else None
    for out in outs:
        cfg = one_cfg or draw(st.sampled_from(list(configs)))
        names = comp_names[cfg]
        per, lo = orders[out]
        entry = [{"config": cfg, "prefix": "tmp/" + out}]

        def membind(component, buffet):
            bl = []
            for t, rs in per.items():
                if draw(st.integers(0, 2)) == 0:
                    continue
                eager_root = None
                for r in rs:
                    if eager_root is not None:
                        break        # everything below the root of an eager binding is covered by it
                    interleaved = fmt[t][fmt_name[(out, t)]].get(r, {}).get("layout") == "interleaved"
                    for ty in (("coord", "payload", "elem") if interleaved else ("coord", "payload")):
                        if draw(st.booleans()):
                            continue
                        b = {"tensor": t, "rank": r, "type": ty, "format": fmt_name[(out, t)]}
                        if buffet:
                            i = lo.index(r) if r in lo else next((k_ for k_, x_ in enumerate(lo) if r in x_), len(lo))
                            choices = (["root"] + lo)[:i + 1]
                            b["evict-on"] = draw(st.sampled_from(choices))
                            if b["evict-on"] != "root" and draw(st.integers(0, 3)) == 0:
                                b["style"] = "eager"
                                eager_root = r
                            elif draw(st.booleans()):
                                b["style"] = "lazy"
                        bl.append(b)
                        if eager_root is not None:
                            break
            return bl
        mb = membind(names["mem"], False)
        if mb and (memory_only or draw(st.integers(0, 4)) > 0):
            entry.append({"component": names["mem"], "bindings": mb})
        bb = membind(names["buf"], buf_class == "Buffet")
        if mb and draw(st.booleans()):
            # mirror the DRAM bindings in the buffer, so that the buffer's fills have a source memory whose traffic is timed
            have = set((b["tensor"], b["rank"], b["type"]) for b in bb)
            eager_t = set(b["tensor"] for b in bb if b.get("style") == "eager")
            for b in mb:
                if (b["tensor"], b["rank"], b["type"]) in have or b["tensor"] in eager_t:
                    continue
                nb = dict(b)
                if buf_class == "Buffet":
                    r = b["rank"]
                    i = lo.index(r) if r in lo else next((k_ for k_, x_ in enumerate(lo) if r in x_), len(lo))
                    nb["evict-on"] = draw(st.sampled_from((["root"] + lo)[:i + 1]))
                bb.append(nb)
        if bb and (memory_only or draw(st.integers(0, 3)) > 0):
            entry.append({"component": names["buf"], "bindings": bb})
        outer_eager = any(b.get("style") == "eager" for b in bb)
        if has_reg and bb and buf_class == "Buffet" and (outer_eager or draw(st.booleans())):
            # an inner register file holding (part of) what the outer buffer holds: lazily, or eagerly from some rank down
            rb = []
            done_t = set()
            for b in bb:
                if b.get("style") == "eager" and b["tensor"] not in done_t and draw(st.integers(0, 3)) > 0:
                    # eagerly loaded (coordinates and, by expansion, payloads) outside, payloads filled lazily inside
                    r = b["rank"]
                    i = lo.index(r) if r in lo else next((k_ for k_, x_ in enumerate(lo) if r in x_), len(lo))
                    rb.append({"tensor": b["tensor"], "rank": r, "type": "payload", "format": b["format"],
                               "evict-on": draw(st.sampled_from((["root"] + lo)[:i + 1])), "style": "lazy"})
                    done_t.add(b["tensor"])
                    continue
                if b["tensor"] in done_t or b.get("style") == "eager" or draw(st.booleans()):
                    continue
                nb = {k_: v for k_, v in b.items() if k_ not in ("style", "root")}
                r = b["rank"]
                i = lo.index(r) if r in lo else next((k_ for k_, x_ in enumerate(lo) if r in x_), len(lo))
                ch = (["root"] + lo)[:i + 1]
                nb["evict-on"] = draw(st.sampled_from(ch))
                if nb["evict-on"] != "root" and draw(st.booleans()):
                    nb["style"] = "eager"
                    done_t.add(b["tensor"])
                rb.append(nb)
            if rb:
                entry.append({"component": names["reg"], "bindings": rb})
        if memory_only:
            bindings[out] = entry
            continue
        if draw(st.integers(0, 4)) > 0 or force.get("compute"):
            entry.append({"component": names["mul"], "bindings": [{"op": "mul"}]})
        if draw(st.integers(0, 4)) > 0:
            if not force.get("compute") and entry[-1].get("component") == names["mul"] and draw(st.sampled_from([False] * 15 + [True])):
                # one functional unit bound to both operations (a MAC): the pinned compiler does not implement it (an assertion,
                # counted as a crash and dropped); a compiler that does must count and print it correctly
                entry[-1]["bindings"].append({"op": "add"})
            else:
                entry.append({"component": names["add"], "bindings": [{"op": "add"}]})
        expr = [e for e in spec["exprs"] if S.out_name(e) == out][0]
        if isect_type and (hint.get("isect") or hint.get("isect_many") or draw(st.integers(0, 3)) > 0):
            # ranks where exactly two input tensors are co-iterated
            cand = [(r_, list(hs_)) for r_, hs_ in hint.get("isect", [])]
            hinted = set(r_ for r_, _ in cand)
            for r in lo:
                hs = [t for t, rs in per.items() if t != out and r in rs]
                if r not in hinted and (len(hs) == 2 or (len(hs) == 3 and isect_type == "leader-follower")):
                    cand.append((r, hs))
            if cand:
                chosen = list(draw(st.permutations(cand)))[:draw(st.sampled_from([2, 2, 3] if hint.get("isect_many") else [1, 2, 2]))]
                # two levels of one partitioned rank, each with its own leader
                pairs = [(x, y) for x in cand for y in cand if x[0] != y[0] and x[0].rstrip("0123456789") == y[0].rstrip("0123456789")
                         and x[0] not in hinted and y[0] not in hinted]
                distinct = False
                if pairs and draw(st.booleans()):
                    chosen = list(draw(st.sampled_from(pairs)))
                    distinct = True
                bl = []
                for r, hs in chosen:
                    b = {"rank": r}
                    if isect_type == "leader-follower":
                        # (for an index-math rank the leader must be the tensor that owns the rank)
                        opts = list(hint.get("leaders", {}).get(r, hs))
                        if distinct and bl and len(opts) > 1 and bl[-1].get("leader") in opts:
                            opts.remove(bl[-1]["leader"])
                        b["leader"] = draw(st.sampled_from(opts))
                    bl.append(b)
                entry.append({"component": names["isect"], "bindings": bl})
        if has_merger and (hint.get("merger") or draw(st.integers(0, 2)) > 0):
            # a merger models the swizzle of one input tensor from its stored order to the loop-concordant order
            # (single swap merges of unpartitioned tensors only: that is all the compiler implements)
            cand = []
            for t, rs in per.items():
                if t == out or t in outs or len(rs) < 2:
                    continue
                # the partitioned-but-not-yet-swizzled tensor only exists as a whole when all partitioning is static
                static = "occupancy" not in repr((spec.get("partitioning") or {}).get(out, {}))
                init = list(decl[t]) if sorted(rs) == sorted(decl[t]) else \
                    (list(PRE_ORDERS.get(out, {}).get(t, [])) if static else [])
                if static and sorted(rs) != sorted(decl[t]) and sorted(init) == sorted(rs) and draw(st.integers(0, 2)) == 0:
                    # the stored order is the user's to state: any order of the partitioned / flattened ranks
                    init = list(draw(st.permutations(list(rs))))
                if sorted(init) != sorted(rs) or init == list(rs):
                    continue
                cand.append((t, init, list(rs)))
            if cand:
                special = [c_ for c_ in cand if sorted(c_[1]) != sorted(decl[c_[0]])]
                t, init, final = draw(st.sampled_from(special if special and draw(st.integers(0, 3)) > 0 else cand))
                entry.append({"component": names["mrg"], "bindings": [{"tensor": t, "init-ranks": init, "final-ranks": final}]})
        if has_seq and lo and draw(st.booleans()):
            rs = draw(gen.subset(lo, min_size=1))
            entry.append({"component": names["seq"], "bindings": [{"rank": r} for r in rs]})
        bindings[out] = entry
    extra = {"architecture": arch, "bindings": bindings, "format": fmt}
    return extra


@st.composite
def case_metrics(draw, n_min=1, n_max=1, max_extent=4, configs=("accel",), with_inputs=True, **kw):
    spec, sizes = draw(metrics_einsums(n_min=n_min, n_max=n_max, **kw))
    try:
        extra = draw(hardware_for(spec, configs=configs))
    except ValueError as e:
        # the mapping itself was refused while computing concordant orders
        extra = None
    case = {"spec": spec, "family": "metrics"}
    if extra is None:
        case["mapping_rejected"] = True
    else:
        spec["extra"] = extra
    aff = spec.pop("affine_extents", None)
    spec.pop("hint", None)
    if with_inputs:
        ext = None
        if aff:
            q, s_ = draw(st.integers(1, max_extent)), draw(st.integers(1, 3))
            ext = {"Q": q, "S": s_, "W": aff["a"] * (q - 1) + aff["b"] * (s_ - 1) + 1}
        rt = draw(gen.runtime(spec, max_extent=max_extent, extents=ext))
        rt["sizes"].update(sizes)
        case.update(rt)
    return case
