"""
Independent extractor: reads lark trees returned by the compiler's parser classes by rule name only and returns
plain structures (C17).  Never uses the compiler's ParseUtils or IR.
"""
from lark.lexer import Token
from lark.tree import Tree


class ExtractError(Exception):
    pass


def _tok(x):
    if isinstance(x, Token):
        return str(x)
    raise ExtractError("expected token, got %r" % (x,))


def _data(t):
    if not isinstance(t, Tree):
        raise ExtractError("expected tree, got %r" % (t,))
    return str(t.data)


def ranks(t):
    if _data(t) != "ranks":
        raise ExtractError("ranks")
    out = []
    for ip in t.children:
        if _data(ip) != "iplus":
            raise ExtractError("iplus")
        terms = []
        for it in ip.children:
            d = _data(it)
            if d == "ijust":
                if len(it.children) != 1:
                    raise ExtractError("ijust arity")
                terms.append(["just", _tok(it.children[0])])
            elif d == "itimes":
                if len(it.children) != 2:
                    raise ExtractError("itimes arity")
                terms.append(["times", int(_tok(it.children[0])), _tok(it.children[1])])
            else:
                raise ExtractError("iterm " + d)
        out.append(terms)
    return out


def factor(t):
    d = _data(t)
    if d == "var":
        if len(t.children) != 1:
            raise ExtractError("var arity")
        return {"v": _tok(t.children[0])}
    if d == "tensor":
        if len(t.children) != 2:
            raise ExtractError("tensor arity")
        return {"t": _tok(t.children[0]), "idx": ranks(t.children[1])}
    raise ExtractError("factor " + d)


def einsum(t):
    if _data(t) != "einsum" or len(t.children) != 2:
        raise ExtractError("einsum")
    o, rhs = t.children
    if _data(o) != "output" or len(o.children) != 2:
        raise ExtractError("output")
    out = [_tok(o.children[0]), ranks(o.children[1])]
    if _data(rhs) != "plus":
        raise ExtractError("plus")
    terms = []
    for term in rhs.children:
        d = _data(term)
        if d == "times":
            terms.append({"take": None, "factors": [factor(f) for f in term.children]})
        elif d == "take":
            if not term.children or not isinstance(term.children[-1], Token):
                raise ExtractError("take selector")
            terms.append({"take": int(_tok(term.children[-1])), "factors": [factor(f) for f in term.children[:-1]]})
        else:
            raise ExtractError("term " + d)
    return {"out": out, "terms": terms}


def directive(t):
    d = _data(t)

    def size(s):
        sd = _data(s)
        if sd == "int_sz":
            return ["int", int(_tok(s.children[0]))]
        if sd == "str_sz":
            return ["str", _tok(s.children[0])]
        raise ExtractError("size " + sd)

    def leader(s):
        if _data(s) != "leader" or len(s.children) != 1:
            raise ExtractError("leader")
        return _tok(s.children[0])
    if d in ("nway_shape", "uniform_shape"):
        if len(t.children) != 1:
            raise ExtractError(d + " arity")
        return {"kind": d, "size": size(t.children[0])}
    if d == "uniform_occupancy":
        if len(t.children) != 2:
            raise ExtractError(d + " arity")
        return {"kind": d, "leader": leader(t.children[0]), "size": size(t.children[1])}
    if d == "flatten":
        if t.children:
            raise ExtractError("flatten arity")
        return {"kind": d}
    if d == "follow":
        if len(t.children) != 1:
            raise ExtractError("follow arity")
        return {"kind": d, "leader": leader(t.children[0])}
    raise ExtractError("directive " + d)


def rank_tuple(t):
    d = _data(t)
    if d == "rank":
        if len(t.children) != 1:
            raise ExtractError("rank arity")
        return [_tok(t.children[0])]
    if d == "ranks":
        if len(t.children) < 2:
            raise ExtractError("ranks arity")
        return [_tok(c) for c in t.children]
    raise ExtractError("rank tuple " + d)


def stamp(t):
    d = _data(t)
    if d not in ("pos", "coord") or len(t.children) != 1:
        raise ExtractError("stamp " + d)
    return {"rank": _tok(t.children[0]), "style": d}


def level(t):
    d = _data(t)
    if d == "single":
        if len(t.children) != 1:
            raise ExtractError("single arity")
        return {"name": _tok(t.children[0]), "last": None}
    if d == "multiple":
        if len(t.children) != 2:
            raise ExtractError("multiple arity")
        return {"name": _tok(t.children[0]), "last": int(_tok(t.children[1]))}
    raise ExtractError("level " + d)
