"""
Worker for C08: started with a given PYTHONHASHSEED, imports the compiler once and serves
"compile this YAML twice" requests: one JSON line in, one JSON line out.
"""
import json
import os
import sys
import traceback


def main():
    sys.dont_write_bytecode = True
    sys.path.insert(0, os.environ.get("VERIF_REPO", "/repo"))
    from teaal.parse import Einsum, Mapping, Architecture, Bindings, Format
    from teaal.trans.hifiber import HiFiber

    def once(y, metrics):
        objs = [Einsum.from_str(y), Mapping.from_str(y)]
        if metrics:
            objs += [Architecture.from_str(y), Bindings.from_str(y), Format.from_str(y)]
        return str(HiFiber(*objs))
    for line in sys.stdin:
        req = json.loads(line)
        out = {"seed": os.environ.get("PYTHONHASHSEED")}
        try:
            out["texts"] = [once(req["yaml"], req.get("metrics")), once(req["yaml"], req.get("metrics"))]
            out["ok"] = True
        except BaseException as e:
            fr = ""
            for f in reversed(traceback.extract_tb(e.__traceback__)):
                if "/teaal/" in f.filename:
                    fr = "%s:%s" % (f.filename.split("/teaal/")[-1], f.name)
                    break
            out.update(ok=False, etype=type(e).__name__, error=str(e)[:200], frame=fr)
        sys.stdout.write(json.dumps(out) + "\n")
        sys.stdout.flush()


if __name__ == "__main__":
    main()
