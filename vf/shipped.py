"""
Load a shipped YAML specification into a spec value, with an own tiny
expression reader (never the compiler's lark grammars).
"""
import re

from . import spec as S


def _yaml_load(path):
    from ruamel.yaml import YAML
    with open(path) as f:
        return YAML(typ="safe").load(f)


_TOK = re.compile(r"\s*([A-Za-z_][A-Za-z_0-9]*|\d+|[\[\](),*+=-])")


def tokenize(s):
    out = []
    pos = 0
    s = s.rstrip()
    while pos < len(s):
        m = _TOK.match(s, pos)
        if not m:
            raise ValueError("cannot tokenize %r at %d" % (s, pos))
        out.append(m.group(1))
        pos = m.end()
    return out


class _P:
    def __init__(self, toks):
        self.t = toks
        self.i = 0

    def peek(self):
        return self.t[self.i] if self.i < len(self.t) else None

    def eat(self, x=None):
        tok = self.peek()
        if tok is None or (x is not None and tok != x):
            raise ValueError("expected %r, got %r" % (x, tok))
        self.i += 1
        return tok

    def iterm(self):
        tok = self.peek()
        if tok == "-":
            self.eat()
            n = -int(self.eat())
            self.eat("*")
            return [n, self.eat()]
        if tok.isdigit():
            n = int(self.eat())
            self.eat("*")
            return [n, self.eat()]
        return [1, self.eat()]

    def iexpr(self):
        out = [self.iterm()]
        while self.peek() == "+":
            self.eat()
            out.append(self.iterm())
        return out

    def access(self):
        name = self.eat()
        self.eat("[")
        idx = []
        if self.peek() != "]":
            idx.append(self.iexpr())
            while self.peek() == ",":
                self.eat()
                idx.append(self.iexpr())
        self.eat("]")
        return name, idx

    def factor(self):
        if self.i + 1 < len(self.t) and self.t[self.i + 1] == "[":
            n, idx = self.access()
            return {"t": n, "idx": idx}
        return {"v": self.eat()}

    def term(self):
        if self.peek() == "take" and self.i + 1 < len(self.t) and self.t[self.i + 1] == "(":
            self.eat()
            self.eat("(")
            items = []
            while True:
                if self.peek().isdigit() and self.t[self.i + 1] == ")":
                    k = int(self.eat())
                    self.eat(")")
                    return {"take": k, "factors": items}
                items.append(self.factor())
                self.eat(",")
        fs = [self.factor()]
        while self.peek() == "*":
            self.eat()
            fs.append(self.factor())
        return {"take": None, "factors": fs}

    def expr(self):
        n, idx = self.access()
        self.eat("=")
        terms = [self.term()]
        while self.peek() == "+":
            self.eat()
            terms.append(self.term())
        if self.peek() is not None:
            raise ValueError("trailing tokens")
        return {"out": [n, idx], "terms": terms}


def parse_expr(s):
    return _P(tokenize(s)).expr()


def load_spec(path, keep_extra=True):
    doc = _yaml_load(path)
    return spec_from_doc(doc, keep_extra)


def spec_from_doc(doc, keep_extra=True):
    es = doc["einsum"]
    spec = {"decl": [[n, list(rs)] for n, rs in es["declaration"].items()],
            "exprs": [parse_expr(e) for e in es["expressions"]],
            "rank_order": {}, "loop_order": {}, "partitioning": {}, "spacetime": {}, "extra": {}}
    m = doc.get("mapping") or {}
    for n, rs in (m.get("rank-order") or {}).items():
        spec["rank_order"][n] = list(rs)
    for n, rs in (m.get("loop-order") or {}).items():
        spec["loop_order"][n] = list(rs)
    for n, parts in (m.get("partitioning") or {}).items():
        spec["partitioning"][n] = [[str(k), [str(d) for d in ds]] for k, ds in (parts or {}).items()]
    for n, st_ in (m.get("spacetime") or {}).items():
        spec["spacetime"][n] = {k: (list(v) if isinstance(v, list) else v) for k, v in st_.items()}
    if keep_extra:
        for k in ("architecture", "bindings", "format"):
            if k in doc and doc[k] is not None:
                spec["extra"][k] = doc[k]
    return spec
