"""
C06 - every emitted program is valid, closed Python.
"""
import glob
import os

from .. import spec as S
from .. import gen, oracle, pyscope, standins, shipped
from .. import execute as X
from ..runner import Part, Violation, Skip

LEVEL = "exploration"
ASSUMPTIONS = [
    "the names a user supplies are computed from the specification alone: input tensors <Name>_<RankOrder>, rank extents, "
    "scalar operands, symbolic partition sizes named in the mapping, and the HiFiber API names",
    "static analysis: a for-loop may run zero times, an if/else contributes the intersection of its branches",
]


def supplied_names(spec):
    s = set(standins.API_NAMES)
    for n in S.user_inputs(spec):
        s.add(S.tensor_var(spec, n))
    for _, rs in spec["decl"]:
        s.update(rs)
    for e in spec["exprs"]:
        for v in S.expr_vars(e):
            s.add(v.upper())
        s.update(S.expr_scalars(e))
    s.update(S.symbolic_sizes(spec))
    return s


def analyse(text, spec):
    """returns (tree, list of (lineno, name, kind)); raises Violation on syntax error"""
    try:
        return pyscope.check(text, supplied_names(spec))
    except SyntaxError as e:
        raise Violation("emitted text is not valid Python: %s (line %s: %r)" % (e.msg, e.lineno, (e.text or "").strip()),
                        sig="syntax", details={"yaml": S.to_yaml(spec), "text": text})


def assert_closed(text, spec, what="program"):
    tree, errs = analyse(text, spec)
    if errs:
        lines = text.split("\n")
        ln, name, kind = errs[0]
        raise Violation("%s reads %r which is %s at line %d: %s" % (what, name, kind, ln, lines[ln - 1].strip()),
                        sig="%s:%s" % (kind, _shape(name)),
                        details={"yaml": S.to_yaml(spec), "text": text, "all": [list(e) for e in errs[:10]]})
    return tree


def _shape(name):
    import re
    return re.sub(r"\d+", "N", re.sub(r"[a-z]", "x", re.sub(r"[A-Z]", "X", name)))


# ---- known finding: output-only iteration of a level of a partitioned rank reads a step variable named like the level


def _conventional(rank, dirs):
    n = len(dirs)
    return all(d == "uniform_shape(%s%d)" % (rank, n - 1 - i) for i, d in enumerate(dirs))


def partitioned_rank_iterated_output_only(case):
    """
    F-C06-1: a rank that is shape-partitioned but carried by no input tensor of its Einsum (so its levels are iterated
    with iterRangeShapeRef), or - in affine Einsums - a level of the partitioned output rank placed before another looped
    symbol of its index equation, when the step variables (<RANK><level>) are not bound by conventionally named
    symbolic uniform_shape sizes.
    """
    if "spec" not in case:
        return False
    spec = case["spec"]
    if case.get("template"):
        from .c04 import output_only_partition_level
        return output_only_partition_level(case)
    for e in spec["exprs"]:
        out = S.out_name(e)
        parts = (spec.get("partitioning") or {}).get(out, [])
        carried = [v.upper() for v in gen.input_carried_vars(e)]
        for key, dirs in parts:
            if key.startswith("("):
                continue
            if key not in carried and any(d.startswith(("uniform_shape", "nway_shape")) for d in dirs):
                if not _conventional(key, dirs):
                    return True
    return False


def coord_stamp_on_flattened_bottom_level(case):
    """
    F-C06-2: a spacetime stamp in coordinate style (R.coord) on a flattened rank that is iterated with a destructured tuple
    (an unpartitioned flattened rank or the bottom level of its occupancy split): the stamp reads the never-bound name
    <flattened rank> (e.g. i0j) instead of the tuple (i0, j).
    """
    if "spec" not in case:
        return False
    spec = case["spec"]
    for out, stt in (spec.get("spacetime") or {}).items():
        flat = []
        for key, dirs in (spec.get("partitioning") or {}).get(out, []):
            if key.startswith("("):
                flat.append("".join(x.strip() for x in key.strip("()").split(",")))
        if not flat:
            continue
        split = dict((key, len(dirs)) for key, dirs in spec["partitioning"][out] if not key.startswith("("))
        for stamp in list(stt.get("space", [])) + list(stt.get("time", [])):
            if not stamp.endswith(".coord"):
                continue
            r = stamp[:-len(".coord")]
            for f in flat:
                if r == f and f not in split:
                    return True
                if f in split and r == f + "0":
                    return True
    return False


def flattened_output_explicit_shape(case):
    """
    F-C06-3: in metrics mode the output tensor is always constructed with an explicit shape=[...]; for an output that
    carries every rank of a flatten() tuple (so that it is flattened itself) the shape entry of the flattened rank is the
    rank's NAME used as a variable (Tensor(rank_ids=["IJ"], shape=[IJ])), which nothing binds.
    """
    spec = case.get("spec") or {}
    if not (spec.get("extra") or {}).get("architecture"):
        return False
    decl = S.decl_of(spec)
    for e in spec["exprs"]:
        out = S.out_name(e)
        for key, dirs in (spec.get("partitioning") or {}).get(out, []):
            if key.startswith("("):
                roots = [x.strip().rstrip("0123456789") for x in key.strip("()").split(",")]
                if all(r in decl[out] for r in roots):
                    return True
    return False


EXCLUDED = {"flattened_output_explicit_shape": flattened_output_explicit_shape,
            "partitioned_rank_iterated_output_only": partitioned_rank_iterated_output_only,
            "coord_stamp_on_flattened_bottom_level": coord_stamp_on_flattened_bottom_level}


class Main(Part):
    name = "main"
    rule = ("Hypothesis draws a specification from every family (plain, shape-partitioned incl. output-only ranks, occupancy, "
            "flatten, affine, cascade) in plain or spacetime mode; the emitted text must ast.parse and the flow-sensitive definite-"
            "assignment analysis must find no read of a name that is neither bound on every path nor user-supplied (loop variables "
            "are bound only inside their loop). Specs refused with ValueError are dropped and counted. Non-trivial = >= 2 nested "
            "loops and >= 1 non-update statement inside a loop.")

    def budget(self, tier):
        return {"quick": dict(examples=600, shards=6, seconds=80),
                "thorough": dict(examples=5000, shards=16, seconds=600)}[tier]

    def strategy(self, tier):
        return gen.corpus_case(max_extent=3, families=("plain", "plain", "shape", "shape", "occ", "flat", "affine", "affine", "cascade",
                                                       "conv2p"))

    def describe(self, case):
        return {"yaml": S.to_yaml(case["spec"]), "mode": case.get("mode")}

    def run_case(self, case):
        spec = case["spec"]
        hf = oracle.compile_or_skip(spec, metrics=False, crash_is_violation=False)
        text = str(hf)
        tree = assert_closed(text, spec)
        nontrivial = pyscope.loop_depth(tree) >= 2 and pyscope.non_update_in_loop(tree) >= 1
        return {"nontrivial": nontrivial, "classes": ["family=" + case.get("family", "?"), "mode=" + case.get("mode", "plain")]}


class Shipped(Part):
    """the shipped YAMLs in all three modes (metrics mode where architecture/bindings/format are present)"""
    name = "shipped"
    rule = ("every YAML under tests/integration compiled in plain mode and, where it has architecture+bindings+format, in metrics "
            "mode; same analysis. Non-trivial as above.")

    def budget(self, tier):
        return dict(examples=1, shards=1, seconds=60)

    def strategy(self, tier):
        from hypothesis import strategies as st
        return st.just({"shipped": "none"})

    def fixed_cases(self, tier):
        out = []
        for p in sorted(glob.glob(os.path.join(X.REPO, "tests/integration/*.yaml"))):
            name = os.path.basename(p)
            out.append({"shipped": name, "metrics": False})
            out.append({"shipped": name, "metrics": True})
        return out

    def describe(self, case):
        return case

    def run_case(self, case):
        if case["shipped"] == "none":
            raise Skip("placeholder")
        path = os.path.join(X.REPO, "tests/integration", case["shipped"])
        try:
            spec = shipped.load_spec(path)
        except Exception as e:
            raise Skip("not-a-full-spec", str(e)[:60])
        has_hw = all(k in spec["extra"] for k in ("architecture", "bindings", "format"))
        if case["metrics"] and not has_hw:
            raise Skip("no-hardware-sections")
        with open(path) as f:
            text_yaml = f.read()
        try:
            hf = X.compile_text(text_yaml, metrics=case["metrics"])
        except X.Rejected as r:
            raise Skip("rejected_by_compiler", str(r)[:80])
        except Exception as e:
            raise Skip("compiler_crash", "%s %s" % (type(e).__name__, X.innermost_teaal_frame(e)))
        text = str(hf)
        tree = assert_closed(text, spec, what="program of " + case["shipped"])
        nontrivial = pyscope.loop_depth(tree) >= 2 and pyscope.non_update_in_loop(tree) >= 1
        return {"nontrivial": nontrivial, "classes": ["shipped", "metrics" if case["metrics"] else "plain"]}


class Metrics(Part):
    name = "metrics"
    rule = ("Hypothesis draws 1-3 product Einsums with a constructed architecture/bindings/format (D_metrics: lazy/eager buffets, "
            "caches, all intersector types, sequencers, shape and occupancy partitioning); the metrics-mode text must parse and be "
            "closed under the same analysis (names such as eager_*_read sets, iteration-number variables, intersector objects, "
            "metrics/formats/bindings/traces dictionaries must all be bound before use). Non-trivial as above.")

    def budget(self, tier):
        return {"quick": dict(examples=200, shards=3, seconds=80),
                "thorough": dict(examples=2500, shards=8, seconds=600)}[tier]

    def strategy(self, tier):
        from .. import gen_metrics
        return gen_metrics.case_metrics(n_min=1, n_max=3, with_inputs=False)

    def describe(self, case):
        return {"yaml": S.to_yaml(case["spec"]), "mode": "metrics"}

    def run_case(self, case):
        if case.get("mapping_rejected"):
            raise Skip("rejected_by_compiler", "mapping")
        spec = case["spec"]
        from . import c11
        for name in ("merger_restores_input_spelling", "merger_init_reorders_flatten_constituents"):
            if c11.EXCLUDED[name](case):
                raise Skip("known-finding-of-other-property", name)
        hf = oracle.compile_or_skip(spec, metrics=True, crash_is_violation=False)
        text = str(hf)
        tree = assert_closed(text, spec, what="metrics-mode program")
        cl = ["family=metrics", "mode=metrics"]
        if "eager" in text:
            cl.append("eager")
        return {"nontrivial": pyscope.loop_depth(tree) >= 2 and pyscope.non_update_in_loop(tree) >= 1, "classes": cl}


PARTS = [Main(), Shipped(), Metrics()]
