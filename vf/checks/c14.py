"""
C14 - execution time is the bottleneck-per-block roll-up of component times.
"""
import ast
import copy
import os
from fractions import Fraction

from hypothesis import strategies as st

from .. import spec as S
from .. import gen, gen_metrics, oracle, shipped, archread, standins
from .. import execute as X
from ..runner import Part, Violation, Skip

LEVEL = "exploration"
ASSUMPTIONS = [
    "the dump is executed with stand-in models that return distinct primes (exact Fractions), so the metrics dictionary is an exact "
    "function of call signatures; the architecture is read by vf/archread.py (instances = N+1 of the level NAME[0..N] declaring the component)",
    "component classes covered: compute, intersector, sequencer, memories that source traffic (DRAM/buffet/cache); mergers only through "
    "the shipped specifications",
    "the emitted right-hand side of metrics[\"time\"] and the reference roll-up are compared as functions: on the executed values and "
    "with each component time in turn made dominant",
]
EXCLUDED = {}

BIG = [Fraction(p) for p in (1000000007, 1000000009, 1000000021, 1000000033, 1000000087, 1000000093, 1000000097, 1000000103)]


def val(x):
    return standins._num(x) if isinstance(x, standins.Sym) else x


def expected_component_time(e, cname, entry, comp, freq, det):
    inst = comp["instances"]
    cls = comp["cls"]
    keys = [k for k in entry if k != "time"]
    if cls == "compute":
        # a unit bound to several operations performs all of them: its operation count is their sum
        count, rate = sum(val(entry[k]) for k in keys), freq
    elif cls == "intersector":
        count, rate = val(entry["intersect"]), freq
    elif cls == "sequencer":
        count, rate = sum(val(entry[k]) for k in keys), freq
    elif cls == "merger":
        if len(keys) != 1:
            raise Skip("multi-tensor-merger")
        count, rate = val(entry[keys[0]]), freq
    elif cls in ("dram", "buffet", "cache"):
        count = 0
        for t in keys:
            count += val(entry[t]["read"])
            if t == e and "write" in entry[t]:
                count += val(entry[t]["write"])
        rate = comp["attrs"].get("bandwidth")
    else:
        raise Skip("unknown-class", cls)
    if not isinstance(rate, int) or isinstance(rate, bool):
        raise Skip("non-integer-rate", str(rate))
    return Fraction(count) / (rate * inst)


def check_intersector_count(spec, text, ns, e, cname, entry, what, det):
    """
    an intersector's operation count is the number of intersection attempts on ALL the ranks it is bound to in this Einsum:
    the sum of <component>_<rank>.getNumIntersects() over the bound ranks (each a distinct prime of the stand-in).
    Only decided when every such object is constructed once in the program (else the final namespace does not identify it).
    """
    import re
    ranks = []
    for x in spec["extra"]["bindings"].get(e, []):
        if x.get("component") == cname:
            ranks += [b["rank"] for b in x.get("bindings", []) if "rank" in b]
    want = Fraction(0)
    for r in ranks:
        var = "%s_%s" % (cname, r)
        if len(re.findall(r"^\s*%s = " % re.escape(var), text, re.M)) != 1 or not isinstance(ns.get(var), standins.Sym):
            return
        want += val(ns[var].getNumIntersects())
    if ranks and Fraction(val(entry["intersect"])) != want:
        raise Violation("metrics[%r][%r][\"intersect\"]%s = %s, but the intersection attempts on the bound ranks %r add up to %s"
                        % (e, cname, what, val(entry["intersect"]), ranks, want), sig="intersector-count", details=det)


def rollup(metrics, blocks, timed):
    total = Fraction(0)
    for b in blocks:
        per = {}
        for e in b:
            for c in timed.get(e, []):
                per[c] = per.get(c, Fraction(0)) + Fraction(metrics[e][c]["time"])
        total += max(per.values()) if per else Fraction(0)
    return total


def check_metrics(case, text, run, what=""):
    spec = case["spec"]
    det = {"yaml": S.to_yaml(spec), "text": text}
    ns = run["ns"]
    metrics = ns.get("metrics")
    if not isinstance(metrics, dict):
        raise Violation("the program%s does not leave a metrics dictionary" % what, sig="no-metrics", details=det)
    outs = S.outputs(spec)
    arch = archread.components(spec["extra"]["architecture"])
    cfg_of = {}
    for e, entries in spec["extra"]["bindings"].items():
        for x in entries:
            if "config" in x:
                cfg_of[e] = x["config"]
    blocks = metrics.get("blocks")
    if [e for b in blocks for e in b] != outs:
        raise Violation("metrics[\"blocks\"]%s = %r does not list the Einsums %r once, in order" % (what, blocks, outs), sig="blocks", details=det)
    timed = {}
    for e in outs:
        info = arch[cfg_of[e]]
        freq = info["frequency"]
        for cname, entry in metrics[e].items():
            if not isinstance(entry, dict) or "time" not in entry:
                continue
            if cname not in info["components"]:
                raise Violation("metrics[%r][%r] is timed but %r is not a component of configuration %s" % (e, cname, cname, cfg_of[e]),
                                sig="unknown-component", details=det)
            if info["components"][cname]["cls"] == "intersector":
                check_intersector_count(spec, text, ns, e, cname, entry, what, det)
            want = expected_component_time(e, cname, entry, info["components"][cname], freq, det)
            got = Fraction(val(entry["time"]))
            if got != want:
                raise Violation("metrics[%r][%r][\"time\"]%s = %s, expected count / (rate x instances) = %s (class %s, %d instances)"
                                % (e, cname, what, got, want, info["components"][cname]["cls"], info["components"][cname]["instances"]),
                                sig="component-time:" + info["components"][cname]["cls"], details=det)
            timed.setdefault(e, []).append(cname)
    # the emitted roll-up expression as a function of the component times
    rhs = None
    for node in ast.walk(ast.parse(text)):
        if isinstance(node, ast.Assign) and isinstance(node.targets[0], ast.Subscript):
            t = node.targets[0]
            if isinstance(t.value, ast.Name) and t.value.id == "metrics" and isinstance(t.slice, ast.Constant) and t.slice.value == "time":
                rhs = node.value
    if rhs is None:
        raise Violation("no assignment to metrics[\"time\"]%s" % what, sig="no-time", details=det)
    code = compile(ast.Expression(rhs), "<time>", "eval")

    def plain(m):
        return {k: ({c: ({"time": Fraction(val(v["time"]))} if isinstance(v, dict) and "time" in v else v) for c, v in e_.items()}
                    if isinstance(e_, dict) else e_) for k, e_ in m.items()}
    base = plain(metrics)
    got = Fraction(eval(code, {"metrics": base, "max": max}))
    want = rollup(base, blocks, timed)
    if got != want or Fraction(val(metrics["time"])) != want:
        raise Violation("metrics[\"time\"]%s = %s, but the sum over blocks of the bottleneck component time is %s" % (what, got, want),
                        sig="rollup", details=det)
    k = 0
    for e in outs:
        for c in timed.get(e, []):
            m2 = copy.deepcopy(base)
            m2[e][c]["time"] = BIG[k % len(BIG)] * (1 + k // len(BIG))
            k += 1
            g2 = Fraction(eval(code, {"metrics": m2, "max": max}))
            w2 = rollup(m2, blocks, timed)
            if g2 != w2:
                raise Violation("the emitted metrics[\"time\"] expression%s is not the bottleneck roll-up: with metrics[%r][%r][\"time\"] made "
                                "dominant it gives %s, the roll-up gives %s (the entry is missing, duplicated or in the wrong block)"
                                % (what, e, c, g2, w2), sig="rollup-function", details=det)
    ntimed = sum(len(v) for v in timed.values())
    multi = any(info_["instances"] > 1 for cfg in arch.values() for info_ in cfg["components"].values())
    cl = ["einsums=%d" % len(outs), "blocks=%d" % len(blocks), "timed=%d" % ntimed]
    for b in blocks:
        if len(b) >= 2:
            cl.append("fused-block")
            comps = set(c for e in b for c in timed.get(e, []))
            if len(comps) == 1 and sum(1 for e in b if timed.get(e)) >= 2:
                cl.append("fused-block-single-component")
    for e in outs:
        for c in timed.get(e, []):
            cl.append("class=" + arch[cfg_of[e]]["components"][c]["cls"])
    nontrivial = (len(blocks) >= 2 or any(sum(1 for e in b for _ in timed.get(e, [])) >= 2 for b in blocks)) and multi and ntimed >= 1
    return {"nontrivial": nontrivial, "classes": sorted(set(cl))}


class Main(Part):
    name = "main"
    rule = ("Hypothesis draws a cascade of 1-4 product Einsums with a constructed architecture (instance counts NAME[0..N] at two "
            "levels, varied clock frequency and bandwidths), bindings and formats, and inputs; the emitted program is run with prime-"
            "valued stand-ins. Every metrics[e][c][\"time\"] must equal count / (rate x instances) recomputed from the same dictionary "
            "and the architecture; metrics[\"time\"] must equal the sum over emitted blocks of the max over components of the per-block "
            "sums, as a value and as a function (each component time in turn made dominant). Non-trivial = (>= 2 blocks or >= 2 timed "
            "entries in a block) and some component with > 1 instance.")

    def budget(self, tier):
        return {"quick": dict(examples=200, shards=6, seconds=80),
                "thorough": dict(examples=2000, shards=16, seconds=600)}[tier]

    def strategy(self, tier):
        return gen_metrics.case_metrics(n_min=1, n_max=4, max_extent=3, configs=("cfgA", "cfgB"))

    def run_case(self, case):
        if case.get("mapping_rejected"):
            raise Skip("rejected_by_compiler", "mapping")
        spec = case["spec"]
        hf = oracle.compile_or_skip(spec, metrics=True, crash_is_violation=False)
        text = str(hf)
        try:
            run = oracle.run_or_violation(text, case, what="metrics-mode program")
        except Violation as v:
            raise Skip("program-failed", v.msg[:80])     # C11's business
        return check_metrics(case, text, run)


ACCEL = ["sigma", "extensor", "extensor-energy", "outerspace", "gamma"]


class Shipped(Part):
    name = "shipped-accelerators"
    rule = "the shipped accelerator specifications (incl. mergers, caches, two configurations) with drawn small sizes and inputs; same oracle"

    def budget(self, tier):
        return {"quick": dict(examples=30, shards=2, seconds=80),
                "thorough": dict(examples=300, shards=8, seconds=600)}[tier]

    def strategy(self, tier):
        from .c03 import shrink_sizes

        @st.composite
        def strat(draw):
            name = draw(st.sampled_from(ACCEL))
            spec = shipped.load_spec(os.path.join(X.REPO, "tests/integration", name + ".yaml"))
            spec = shrink_sizes(spec, draw)
            rt = draw(gen.runtime(spec, max_extent=4))
            c = {"spec": spec, "family": "accel:" + name}
            c.update(rt)
            return c
        return strat()

    def describe(self, case):
        return {"accelerator": case["family"], "extents": case["extents"], "sizes": case["sizes"]}

    def run_case(self, case):
        spec = case["spec"]
        hf = oracle.compile_or_skip(spec, metrics=True, crash_is_violation=False)
        text = str(hf)
        try:
            run = oracle.run_or_violation(text, case, what="metrics-mode program")
        except Violation as v:
            raise Skip("program-failed", v.msg[:80])
        r = check_metrics(case, text, run, what=" of " + case["family"])
        r["classes"].append(case["family"])
        return r


PARTS = [Main(), Shipped()]
