"""
C11 - metrics instrumentation does not change what is computed.
"""
import os
import re

from hypothesis import strategies as st

from .. import spec as S
from .. import gen, gen_metrics, oracle, shipped
from .. import execute as X
from ..runner import Part, Violation, Skip

LEVEL = "exploration"
ASSUMPTIONS = [
    "the reference HiFiber model stands for fibertree; Metrics/Traffic/Format/Compute/*Intersector are inert recording stand-ins",
    "Fiber.intersection(a, b, style='leader-follower') of exactly two fibers yields payloads in argument order (DESIGN.md 3.2 "
    "decision 5); leader-follower intersectors are bound only to ranks where exactly two tensors are co-iterated",
    "D_metrics is a constructed family (1-3 hardware levels, DRAM, buffet/cache, compute, the three intersector types, sequencer) "
    "plus the shipped accelerator specifications; specifications the compiler refuses or cannot handle are dropped and counted",
]


def flattened_output_explicit_shape(case):
    """F-C11-2 (root cause shared with F-C06-3): metrics mode + flattened output: shape=[IJ] reads an unbound name"""
    from . import c06
    return c06.flattened_output_explicit_shape(case)


def merger_restores_input_spelling(case):
    """
    F-C11-3: a merger bound to a flattened input whose final rank order spells the declared one (A: [M, K, N], (M, K) flattened,
    init [N, MK], final [MK, N]): after the merger's two swizzles the compiler's name for the tensor has lost its _flat mark
    and is A_MKN again, so the emitted statement re-binds the user's input variable to the flattened tensor.
    """
    spec = case.get("spec")
    if not spec or not (spec.get("extra") or {}).get("bindings"):
        return False
    decl = S.decl_of(spec)
    for entries in spec["extra"]["bindings"].values():
        for x in entries:
            for b in x.get("bindings", []):
                if "final-ranks" in b and b.get("tensor") in decl:
                    fin = list(b["final-ranks"])
                    if fin != decl[b["tensor"]] and "".join(fin) == "".join(decl[b["tensor"]]):
                        return True
    return False


def merger_init_reorders_flatten_constituents(case):
    """
    F-C11-6: a merger bound to a tensor that holds >= 2 constituents of a flattened loop rank separately (it lacks another
    constituent, so it is looked up with getPayload(n0, j)) and whose init-ranks list those constituents in another relative
    order than final-ranks: LoopOrder.apply keeps the incoming order of ranks that become ready at the same loop, so after the
    merger's first swizzle the loop-order swizzle yields [.., J, N0] instead of [.., N0, J]; the lookup order stays (n0, j) and
    the formats dictionary names a tensor version (B_IN1N0J) that is never created.
    """
    import re
    spec = case.get("spec")
    if not spec or not (spec.get("extra") or {}).get("bindings"):
        return False
    for out, entries in spec["extra"]["bindings"].items():
        groups = []
        for key, dirs in (spec.get("partitioning") or {}).get(out, []):
            if key.startswith("(") and any("flatten" in d for d in dirs):
                groups.append([r.strip() for r in key.strip("()").split(",")])
        if not groups:
            continue
        for x in entries:
            for b in x.get("bindings", []):
                if "final-ranks" not in b:
                    continue
                init, fin = list(b["init-ranks"]), list(b["final-ranks"])
                for g in groups:
                    held = [r for r in fin if r in g]
                    if len(held) >= 2 and [r for r in init if r in g] != held:
                        return True
    return False


EXCLUDED = {"flattened_output_explicit_shape": flattened_output_explicit_shape,
            "merger_init_reorders_flatten_constituents": merger_init_reorders_flatten_constituents,
            "merger_restores_input_spelling": merger_restores_input_spelling}


def loop_headers(text):
    return [ln.strip() for ln in text.split("\n") if ln.strip().startswith("for ")]


def compile_both(spec):
    hf_m = oracle.compile_or_skip(spec, metrics=True, crash_is_violation=False)
    if getattr(hf_m, "hardware", None) is None:
        raise Skip("no-hardware-sections")
    plain = S.strip_mapping(spec, keep=("rank_order", "loop_order", "partitioning", "spacetime"))
    plain["spacetime"] = {}
    hf_p = oracle.compile_or_skip(plain, metrics=False, crash_is_violation=False)
    return hf_m, hf_p, plain


def run_compare(case, what=""):
    spec = case["spec"]
    hf_m, hf_p, plain = compile_both(spec)
    tm, tp = str(hf_m), str(hf_p)
    run_m = oracle.run_or_violation(tm, case, what="metrics-mode program" + what)
    exp = oracle.compare_outputs(case, run_m, what="metrics-mode program" + what)
    # explicit output shapes: the final tensor's shape (tracked by the model through swizzles/merges) must be the extents
    for name in S.outputs(spec):
        t = run_m["ns"].get(S.tensor_var(spec, name))
        if t is not None and getattr(t, "shape", None) is not None:
            want = [case["extents"][r] for r in S.order_of(spec, name)]
            if list(t.shape) != want:
                raise Violation("metrics-mode program%s leaves %s with shape %r, but its ranks %r have extents %r"
                                % (what, S.tensor_var(spec, name), list(t.shape), S.order_of(spec, name), want),
                                sig="output-shape", details={"yaml": S.to_yaml(spec), "text": tm})
    cp = dict(case, spec=plain)
    run_p = oracle.run_or_violation(tp, cp, what="plain-mode program" + what)
    oracle.compare_outputs(cp, run_p, expected=exp, what="plain-mode program" + what)
    # the variables under which the user supplied the inputs still hold those tensors (a later Einsum, or the user, reads them
    # again): the metrics-only statements (merger swizzles) may add variables, never re-bind or change an input
    from .. import hfmodel as M_
    for var, t in run_m["supplied"].items():
        now = run_m["ns"].get(var)
        # (dynamic partitioning re-creates an input from its own root fiber under the same name, in both modes: same ranks, same data)
        try:
            same = isinstance(now, M_.Tensor) and M_.snapshot(now) == run_m["snaps"][var]
        except M_.ModelError:
            same = False
        if not same:
            raise Violation("the metrics-mode program%s re-binds the input variable %s to something else (now %s with rank ids %r); "
                            "the plain-mode program leaves it alone" % (what, var, type(now).__name__, getattr(now, "rank_ids", None)),
                            sig="input-variable-rebound", details={"yaml": S.to_yaml(spec), "text": tm, "plain_text": tp})
        if M_.snapshot(t) != run_m["snaps"][var]:
            raise Violation("the metrics-mode program%s modifies the input %s" % (what, var),
                            sig="input-modified", details={"yaml": S.to_yaml(spec), "text": tm, "plain_text": tp})
    hm, hp = loop_headers(tm), loop_headers(tp)
    differs = hm != hp
    swz_m = len(re.findall(r"swizzleRanks", tm)) != len(re.findall(r"swizzleRanks", tp))
    cl = []
    if "leader-follower" in tm:
        cl.append("leader-follower")
    nb = max([len(x.get("bindings", [])) for e in (spec["extra"].get("bindings") or {}).values() for x in e
              if str(x.get("component", "")).startswith("Isect")] + [0])
    if nb >= 2:
        cl.append("intersector-ranks>=2")
    if differs:
        cl.append("loop-headers-differ")
    if swz_m:
        cl.append("metrics-swizzle")
    if "shape=" in tm and "shape=" not in tp:
        cl.append("explicit-shape")
    traced = "trace=" in tm or ".trace(" in tm or "getIter()" in tm
    if traced:
        cl.append("tracing-in-loops")
    out = S.outputs(spec)[-1]
    return {"nontrivial": (differs or swz_m or traced or "explicit-shape" in cl) and bool(exp[out]), "classes": cl}


class Main(Part):
    name = "main"
    rule = ("Hypothesis draws 1-3 product Einsums with loop orders, optional shape partitioning and spacetime, constructs an "
            "architecture (1-3 levels with instance counts, DRAM, buffet or cache, mul/add compute, an intersector of one of the three "
            "types bound to a rank co-iterated by exactly two tensors - leader drawn from them -, sequencer), per-tensor formats in "
            "loop-concordant order and memory bindings (lazy/eager, evict-on), extents and inputs. The metrics-mode program run with "
            "inert stand-ins must compute the same tensors as the plain compile of the same Einsum/mapping and as dense evaluation. "
            "Non-trivial = loop headers differ between the two texts (leader-follower expression, suppressed enumerate, trace "
            "arguments), a metrics-driven swizzle or an explicit output shape exists, or tracing statements/arguments sit in the loop nest, "
            "and the output is non-empty.")

    def budget(self, tier):
        return {"quick": dict(examples=330, shards=7, seconds=100),
                "thorough": dict(examples=2500, shards=16, seconds=600)}[tier]

    def strategy(self, tier):
        return gen_metrics.case_metrics(n_min=1, n_max=3, max_extent=4 if tier == "quick" else 6)

    def run_case(self, case):
        if case.get("mapping_rejected"):
            raise Skip("rejected_by_compiler", "mapping")
        return run_compare(case)


ACCEL = ["sigma", "extensor", "extensor-energy", "outerspace", "gamma", "demo"]


class Shipped(Part):
    name = "shipped-accelerators"
    rule = ("the shipped accelerator specifications with their own architecture/bindings/format, partition sizes scaled down to drawn "
            "small values, on drawn extents and inputs: metrics-mode vs plain-mode vs dense evaluation")

    def budget(self, tier):
        return {"quick": dict(examples=40, shards=2, seconds=80),
                "thorough": dict(examples=400, shards=8, seconds=600)}[tier]

    def strategy(self, tier):
        from .c03 import shrink_sizes

        @st.composite
        def strat(draw):
            name = draw(st.sampled_from(ACCEL))
            spec = shipped.load_spec(os.path.join(X.REPO, "tests/integration", name + ".yaml"))
            spec = shrink_sizes(spec, draw)
            rt = draw(gen.runtime(spec, max_extent=5))
            c = {"spec": spec, "family": "accel:" + name}
            c.update(rt)
            return c
        return strat()

    def describe(self, case):
        d = {"accelerator": case["family"], "partitioning": case["spec"]["partitioning"]}
        for k in ("extents", "sizes", "inputs"):
            d[k] = case[k]
        return d

    def run_case(self, case):
        r = run_compare(case, what=" of " + case["family"])
        r["classes"].append(case["family"])
        return r


PARTS = [Main(), Shipped()]
