"""
C04 - affine index expressions are evaluated exactly, with or without partitioning.
"""
import itertools

from .. import spec as S
from .. import gen, oracle
from .. import execute as X
from ..runner import Part, Violation, Skip

LEVEL = "exploration"
ASSUMPTIONS = [
    "the reference HiFiber model stands for fibertree; project() re-sorts by the mapped coordinate and filters by the half-open interval; "
    "a splitUniform partition with halo exists iff its extended range holds an element (DESIGN.md 3.2 decision 2)",
    "extents are shape-consistent: the accessed tensor's extent is sum(coeff*(extent-1))+1",
    "bounds: coefficients in {1,2,3,4}, <= 2 partition levels, extents <= 6 (quick) / 8 (thorough)",
]


def dense_inputs(case):
    """every element of every input present, with position-dependent positive values"""
    spec = case["spec"]
    decl = S.decl_of(spec)
    out = {}
    for n in S.user_inputs(spec):
        shape = [case["extents"][r] for r in decl[n]]
        d = {}
        for cs in itertools.product(*[range(k) for k in shape]):
            d[cs] = 1 + (sum((i + 2) * c for i, c in enumerate(cs)) % 7)
        out[n] = d
    return X.inputs_to_json(out)


class Main(Part):
    name = "main"
    rule = ("Hypothesis draws an affine Einsum from templates (conv1d with stride/dilation and optional batch/channel ranks, conv2d, "
            "three-variable sum, subsampling, rank renaming; coefficients 1-4), a loop order that may loop over the accessed tensor's own "
            "rank instead of an index variable, optional 1-2 level uniform_shape/nway_shape partitioning of the output index rank with "
            "the input rank follow()-ing it, shape-consistent extents and inputs; each spec is run on the drawn input AND on an all-dense "
            "input; output must equal dense evaluation and no element (even zero-valued) may lie outside the declared extent or at a "
            "fractional coordinate. Specs refused with ValueError (e.g. projecting into the output) are counted and dropped. "
            "Non-trivial = >= 2 filter taps contribute to some output element (S extent >= 2 and non-empty output) and, when partitioned, "
            ">= 2 partitions were formed.")

    def budget(self, tier):
        return {"quick": dict(examples=500, shards=4, seconds=100),
                "thorough": dict(examples=3000, shards=16, seconds=600)}[tier]

    def strategy(self, tier):
        return gen.case_affine(max_extent=6 if tier == "quick" else 8)

    def run_case(self, case):
        spec = case["spec"]
        hf = oracle.compile_or_skip(spec)
        text = str(hf)
        out = S.outputs(spec)[0]
        cl = ["template=" + case["template"], "part-levels=%d" % case["part_levels"],
              "loop-order=" + ("given" if spec["loop_order"] else "omitted")]
        lo = (spec["loop_order"] or {}).get(out, [])
        decl = S.decl_of(spec)
        own = [r for r in lo if r.rstrip("0123456789") not in [v.upper() for v in S.expr_vars(spec["exprs"][0])]]
        if own:
            cl.append("loops-over-tensor-rank")
        nontrivial = False
        for variant in ("drawn", "dense"):
            c = case if variant == "drawn" else dict(case, inputs=dense_inputs(case))
            run = oracle.run_or_violation(text, c, what="program (%s input)" % variant)
            t = run["ns"].get(S.tensor_var(spec, out))
            if t is not None and hasattr(t, "rank_ids"):
                order = S.order_of(spec, out)
                if t.getRankIds() == order:
                    bad = oracle.coords_outside_extent(t, [case["extents"][r] for r in order])
                    if bad:
                        raise Violation("program (%s input) creates output elements outside the declared extent or at fractional "
                                        "coordinates: %r (extents %r)" % (variant, bad[:6], case["extents"]),
                                        sig="out-of-extent", details={"yaml": S.to_yaml(spec), "text": text})
            exp = oracle.compare_outputs(c, run, what="program (%s input)" % variant)
            taps = max([case["extents"].get(r, 1) for r in ("S", "R")] + [1])
            multi = run["stats"].get("splitUniform>=2", 0) > 0 if case["part_levels"] else True
            if exp[out] and multi and (taps >= 2 or case["template"] in ("subsample", "rename")):
                nontrivial = True
        if case["part_levels"]:
            cl.append("halo-shared" if run["stats"].get("halo-shared") else "no-halo-shared")
        return {"nontrivial": nontrivial, "classes": cl}


class HaloStacksOneSided(Part):
    """
    The class of known finding F-C04-5 (>= 2 partition levels whose follower needs a halo) has no exact oracle on this tree:
    contributions of halo elements are counted twice.  What the property still demands there and the tree still delivers is
    the other direction: nothing is lost.  With strictly positive inputs every contribution is positive, so every output
    element must be >= the dense evaluation (and present whenever the dense evaluation is non-zero).
    """
    name = "halo-stacks-one-sided"
    handles_excluded = ("multi_level_partition_with_halo",)
    rule = ("cases of the main part's generator restricted to the class of known finding F-C04-5 (two partition levels, follower with "
            "halo) and outside every other excluded class, run on an all-dense strictly positive input and on the drawn input with "
            "absolute values: every output element must be >= its dense evaluation (no contribution may be lost; double counting, "
            "the known finding, is tolerated). Non-trivial = >= 2 taps and >= 2 partitions formed.")

    def budget(self, tier):
        return {"quick": dict(examples=400, shards=3, seconds=60),
                "thorough": dict(examples=1500, shards=8, seconds=400)}[tier]

    def strategy(self, tier):
        return gen.case_affine(max_extent=6 if tier == "quick" else 8, force_levels=2).filter(multi_level_partition_with_halo)

    def run_case(self, case):
        spec = case["spec"]
        hf = oracle.compile_or_skip(spec)
        text = str(hf)
        out = S.outputs(spec)[0]
        nontrivial = False
        drawn_abs = {n: [[c, abs(v)] for c, v in items if v] for n, items in case["inputs"].items()}
        for variant, inputs in (("dense", dense_inputs(case)), ("drawn-abs", drawn_abs)):
            c = dict(case, inputs=inputs)
            run = oracle.run_or_violation(text, c, what="program (%s input)" % variant)
            got, err = X.output_map(run["ns"], spec, out)
            if err:
                raise Violation(err, sig="output-malformed", details={"yaml": S.to_yaml(spec), "text": text})
            exp = oracle.expected_outputs(c)[out]
            lost = [(k, v, got.get(k, 0)) for k, v in sorted(exp.items()) if v and got.get(k, 0) < v]
            if lost:
                raise Violation("program (%s input, all values positive) loses contributions: (coordinate, dense evaluation, output) = %r"
                                % (variant, lost[:6]), sig="contribution-lost", details={"yaml": S.to_yaml(spec), "text": text})
            taps = max([case["extents"].get(r, 1) for r in ("S", "R")] + [1])
            if exp and taps >= 2 and run["stats"].get("splitUniform>=2", 0) > 0:
                nontrivial = True
        return {"nontrivial": nontrivial, "classes": ["template=" + case["template"]]}


class Conv2dTwoPartitions(Part):
    name = "conv2d-two-partitioned-ranks"
    rule = ("2-D convolutions O[p,q] = I[p+r, q+s] * F[r,s] with BOTH output index ranks shape-partitioned (symbolic sizes) and both "
            "input ranks follow()-ing them, every interleaving of [P1,P0], [Q1,Q0], [R], [S] as loop order, constructed outside every "
            "known-finding class; executed on the drawn and on an all-dense input and compared with dense evaluation (two projection "
            "intervals, two halos in one Einsum). Non-trivial = both filter extents >= 2 or >= 2 partitions formed.")

    def budget(self, tier):
        return {"quick": dict(examples=120, shards=2, seconds=60),
                "thorough": dict(examples=1500, shards=8, seconds=400)}[tier]

    def strategy(self, tier):
        return gen.case_conv2p(max_extent=5 if tier == "quick" else 7)

    def run_case(self, case):
        spec = case["spec"]
        text = str(oracle.compile_or_skip(spec))
        nontrivial = False
        for variant in ("drawn", "dense"):
            c = case if variant == "drawn" else dict(case, inputs=dense_inputs(case))
            run = oracle.run_or_violation(text, c, what="program (%s input)" % variant)
            exp = oracle.compare_outputs(c, run, what="program (%s input)" % variant)
            if exp["O"] and (min(case["extents"]["R"], case["extents"]["S"]) >= 2 or run["stats"].get("splitUniform>=2", 0) > 0):
                nontrivial = True
        return {"nontrivial": nontrivial, "classes": ["template=conv2p"]}


# --------------------------------------------------------------------------
# excluded classes of known findings (predicates on the case)


def _strip(r):
    return r.rstrip("0123456789")


def effective_loop_order(case):
    """explicit loop order, or the default: index variables in order of appearance, partitioned ranks replaced by their levels"""
    spec = case["spec"]
    out = S.outputs(spec)[0]
    lo = (spec.get("loop_order") or {}).get(out)
    if lo:
        return list(lo)
    res = []
    for v in S.expr_vars(spec["exprs"][0]):
        r = v.upper()
        if case.get("part_levels") and r == case.get("part_rank"):
            res += gen.levels_of(r, case["part_levels"])
        else:
            res.append(r)
    return res


def _eq_positions(case, trank, terms):
    """bottom-level loop position of every looped symbol of the equation trank = sum terms"""
    lo = effective_loop_order(case)
    pos = {}
    for i, r in enumerate(lo):
        root = _strip(r)
        if root == trank or root in [v for _, v in terms]:
            pos[root] = i            # last (bottom-most) occurrence wins
    return pos


def fractional_projection_imprecise(case):
    """
    F-C04-1: the last-looped symbol of an affine equation has a coefficient that is not a power of two and the
    equation has >= 3 symbols: the projection is emitted as a sum of binary-float fractions (-1 / 3 * q + 1 / 3 * w)
    whose rounding makes `c % 1 == 0` drop genuine contributions.
    """
    for trank, terms in case.get("affine", []):
        if len(terms) < 2:
            continue
        pos = _eq_positions(case, trank, terms)
        if not pos:
            continue
        last = max(pos, key=lambda r: pos[r])
        coeff = dict((v, c) for c, v in terms).get(last, 1)
        if abs(coeff) not in (1, 2, 4, 8):
            return True
    return False


def output_only_partition_level(case):
    """
    F-C06-1 (shared with C06): a level of the partitioned output rank is iterated output-only (iterRangeShapeRef) - it comes
    before another looped symbol of its equation - and the step is read from a variable named like the next level (Q0, Q1...)
    which exists only if every directive is uniform_shape with that conventional symbolic name.
    """
    if not case.get("part_levels"):
        return False
    spec = case["spec"]
    out = S.outputs(spec)[0]
    R = case["part_rank"]
    dirs = [d for k, d in spec["partitioning"][out] if k == R][0]
    n = len(dirs)
    conventional = all(d == "uniform_shape(%s%d)" % (R, n - 1 - i) for i, d in enumerate(dirs))
    if conventional:
        return False
    lo = effective_loop_order(case)
    for trank, terms in case["affine"]:
        if R not in [v for _, v in terms]:
            continue
        others = [v for _, v in terms if v != R] + [trank]
        # every level of R except the top one needs the step of the level below the one above... any non-top level or
        # the top level's step is emitted from names; output-only iteration happens when some other looped symbol of
        # the equation comes after the level
        # (upper levels are always obtained by projecting the follower's upper level; only the bottom level needs every
        #  other symbol of the equation to be bound already)
        for lvl in [R + "0"]:
            if lvl not in lo:
                continue
            p = lo.index(lvl)
            later = [r for r in lo[p + 1:] if _strip(r) in others]
            if later:
                return True
    return False


def _steps(case):
    """steps (in the output rank's coordinate space) of every partition level, outermost first"""
    spec = case["spec"]
    out = S.outputs(spec)[0]
    R = case["part_rank"]
    dirs = [d for k, d in spec["partitioning"][out] if k == R][0]
    Q = case["extents"][R]
    steps = []
    for d in dirs:
        kind, arg = d[:d.index("(")], d[d.index("(") + 1:-1]
        if kind not in ("uniform_shape", "nway_shape"):
            continue
        val = int(arg) if arg.isdigit() else case["sizes"][arg]
        steps.append(val if kind == "uniform_shape" else (Q - 1) // val + 1)
    return steps


def partition_beyond_output_extent(case):
    """
    F-C04-2: with the input rank follow()-ing a shape-partitioned output rank, the loop over an upper level visits every
    input partition, and the interval of a non-final partition ends at the next input partition's coordinate, not at the
    output extent: if the input holds a partition that starts beyond the output extent Q, elements q >= Q are created.
    Necessary condition used as the class: some level's largest possible partition start (in output coordinates) exceeds Q.
    """
    if not case.get("part_levels"):
        return False
    R = case["part_rank"]
    Q = case["extents"][R]
    for Wn in (case.get("followers") or [case["follower"]]):
        W = case["extents"][Wn]
        a, pre = 1, 0
        for trank, terms in case["affine"]:
            if trank == Wn:
                a = dict((v, c) for c, v in terms)[R]
                # a pre-halo (negative coefficients) makes partitions exist up to max coordinate + pre-halo
                pre = sum(-c * (case["extents"][v] - 1) for c, v in terms if c < 0)
        for step in _steps(case):
            if step * ((W - 1 + pre) // (a * step)) > Q - (1 if pre else 0):
                return True
    return False


def follower_level_after_leader_level(case):
    """
    F-C04-3: the follower's bottom level (W0) is looped after the leader's bottom level (Q0), e.g. [Q1, Q0, W0]:
    the compiler crashes with KeyError in FlowGraph.__build_project_interval instead of compiling or refusing.
    """
    if not case.get("part_levels"):
        return False
    lo = effective_loop_order(case)
    f0, l0 = case["follower"] + "0", case["part_rank"] + "0"
    return f0 in lo and l0 in lo and lo.index(f0) > lo.index(l0)


def multi_level_partition_with_halo(case):
    """
    F-C04-5: two or more partition levels on a rank whose follower needs a halo (the equation has >= 2 terms): the halo
    elements of an outer partition form inner partitions outside the outer partition's range, and contributions are
    counted twice (Q: [uniform_shape(Q1), uniform_shape(Q0)], W: [follow(Q)], O[q] = I[q + s] * F[s]).
    """
    if case.get("part_levels", 0) < 2:
        return False
    for trank, terms in case["affine"]:
        if trank in (case.get("followers") or [case["follower"]]) and len(terms) >= 2:
            return True
    return False


EXCLUDED = {
    "multi_level_partition_with_halo": multi_level_partition_with_halo,
    "follower_level_after_leader_level": follower_level_after_leader_level,
    "fractional_projection_imprecise": fractional_projection_imprecise,
    "output_only_partition_level": output_only_partition_level,
    "partition_beyond_output_extent": partition_beyond_output_extent,
}


PARTS = [Main(), HaloStacksOneSided(), Conv2dTwoPartitions()]
