"""
C07 - tensor variable names tell the truth and inputs are never modified.
"""
import re

from hypothesis import strategies as st

from .. import spec as S
from .. import gen, oracle
from .. import hfmodel as M
from ..runner import Part, Violation, Skip
from . import c01, c04, c06

LEVEL = "exploration"
ASSUMPTIONS = [
    "the reference HiFiber model stands for fibertree; in particular swizzleRanks/split*/flattenRanks/mergeRanks return new tensors "
    "and Tensor.fromFiber / setRankIds work in place on shared data (DESIGN.md 3.2)",
    "cases falling into known-finding classes of C01/C04/C06 (programs that cannot run or are known wrong) are skipped and counted",
]
EXCLUDED = {}


def other_findings(case):
    for name, pred in list(c01.EXCLUDED.items()) + list(c06.EXCLUDED.items()):
        if pred(case):
            return name
    if case.get("template"):
        for name, pred in c04.EXCLUDED.items():
            if pred(case):
                return name
    return None


class Main(Part):
    name = "main"
    rule = ("Hypothesis draws an executable specification from every family of C01-C05 (plain, shape, occupancy, flatten, affine, "
            "cascade) with inputs; after running the emitted program on the reference model: every global named <DeclaredTensor>_<suffix>"
            "[_flat] holding a tensor has rank ids spelling <suffix>; every Einsum output is bound under <Out>_<declared-or-rank-order "
            "ranks> with values equal to dense evaluation (original coordinates); every user-supplied tensor object, and the tensor its "
            "name denotes, equals its deep snapshot (data, explicit zeros and rank ids). Non-trivial = an input was swizzled/split/"
            "flattened (model counters) and >= 1 setRankIds executed.")

    def budget(self, tier):
        return {"quick": dict(examples=350, shards=6, seconds=80),
                "thorough": dict(examples=3000, shards=16, seconds=600)}[tier]

    def strategy(self, tier):
        return gen.corpus_case(max_extent=4 if tier == "quick" else 6, spacetime_ratio=None, static_only=False)

    def run_case(self, case):
        spec = case["spec"]
        of = other_findings(case)
        if of:
            raise Skip("known-finding-of-other-property", of)
        hf = oracle.compile_or_skip(spec, metrics=False, crash_is_violation=False)
        text = str(hf)
        run = oracle.run_or_violation(text, case)
        check_namespace(case, run, text)
        stats = run["stats"]
        transformed = sum(stats.get(k, 0) for k in ("swizzleRanks", "splitUniform", "splitEqual", "splitNonUniform", "flatten:tuple"))
        nontrivial = transformed > 0 and stats.get("setRankIds", 0) > 0
        cl = ["family=" + case.get("family", "?")]
        for k in ("swizzleRanks", "setRankIds", "fromFiber"):
            if stats.get(k):
                cl.append("model:" + k)
        return {"nontrivial": nontrivial, "classes": cl}


def check_namespace(case, run, text):
    spec = case["spec"]
    ns = run["ns"]
    names = [n for n, _ in spec["decl"]]
    pat = re.compile(r"^(%s)_([A-Za-z0-9]*?)(_flat)?$" % "|".join(sorted(map(re.escape, names), key=len, reverse=True)))
    det = {"yaml": S.to_yaml(spec), "text": text}
    for var, val in ns.items():
        if not isinstance(val, M.Tensor):
            continue
        m = pat.match(var)
        if not m:
            continue
        ids = "".join(val.getRankIds())
        if ids != m.group(2):
            raise Violation("variable %s holds a tensor whose rank ids are %r" % (var, val.getRankIds()),
                            sig="name-lies", details=det)
    # outputs under their declared / rank-order names, original coordinates
    oracle.compare_outputs(case, run)
    # inputs untouched
    for var, t in run["supplied"].items():
        snap = run["snaps"][var]
        try:
            now = M.snapshot(t)
        except M.ModelError as e:
            raise Violation("supplied tensor %s was corrupted: %s" % (var, e), sig="input-corrupted", details=det)
        if now != snap:
            raise Violation("supplied tensor object %s was modified: rank ids %r -> %r, data changed=%s"
                            % (var, list(snap[0]), list(now[0]), snap[1] != now[1]), sig="input-modified", details=det)
        cur = ns.get(var)
        if not isinstance(cur, M.Tensor):
            raise Violation("the supplied name %s no longer denotes a tensor" % var, sig="input-rebound", details=det)
        if cur is not t:
            try:
                if M.snapshot(cur) != snap:
                    raise Violation("the supplied name %s was rebound to a different tensor (rank ids %r)" % (var, cur.getRankIds()),
                                    sig="input-rebound", details=det)
            except M.ModelError as e:
                raise Violation("the supplied name %s was rebound to a malformed tensor: %s" % (var, e), sig="input-rebound", details=det)


PARTS = [Main()]
