"""
C02 - shape-based partitioning never changes the result and is undone on the output.
"""
from .. import spec as S
from .. import gen, oracle
from ..runner import Part, Violation, Skip

LEVEL = "exploration"
ASSUMPTIONS = [
    "the reference HiFiber model stands for fibertree; splitUniform partitions are keyed by multiples of the step (DESIGN.md 3.2)",
    "partitioned ranks are carried by at least one input tensor (output-only partitioned ranks cannot be executed: see C06 finding)",
    "bounds: <= 4 index variables, <= 3 directives per rank, extents <= 6 (quick) / 9 (thorough)",
]
EXCLUDED = {}


def classes_of(case):
    spec = case["spec"]
    cl = ["loop-order=" + case.get("lo_mode", "?")]
    parts = (spec.get("partitioning") or {}).get("Z", [])
    cl.append("partitioned-ranks=%d" % len(parts))
    for _, dirs in parts:
        cl.append("levels=%d" % len(dirs))
        kinds = set(d.split("(")[0] for d in dirs)
        cl.append("kinds=" + "+".join(sorted(kinds)))
        for d in dirs:
            if not d[d.index("(") + 1:-1].isdigit():
                cl.append("symbolic-size")
    e = spec["exprs"][0]
    cl.append("terms=%d" % len(e["terms"]))
    return cl


class Main(Part):
    name = "main"
    rule = ("Hypothesis draws an Einsum (sums of products, scalars, rank-0), extents, and for a non-empty subset of the "
            "input-carried ranks a stack of 1-3 uniform_shape/nway_shape directives (literal or symbolic sizes in 1..extent+2), "
            "a loop order over the levels (omitted / level-ordered interleaving / arbitrary permutation), rank orders and inputs; "
            "the partitioned program must equal dense evaluation AND the run of the same spec with the partitioning removed, with "
            "the output under its declared/rank-order name and rank ids. Non-trivial = some splitUniform produced >= 2 partitions "
            "(counted in the model) and the expected output is non-empty.")

    def budget(self, tier):
        return {"quick": dict(examples=700, shards=4, seconds=100),
                "thorough": dict(examples=4000, shards=16, seconds=600)}[tier]

    def strategy(self, tier):
        return gen.case_shape(max_extent=6 if tier == "quick" else 9, allow_take=True)

    def run_case(self, case):
        spec = case["spec"]
        from . import c01
        for name, pred in c01.EXCLUDED.items():
            if pred(case):
                raise Skip("known-finding-of-other-property", name)
        hf = oracle.compile_or_skip(spec)
        run = oracle.run_or_violation(str(hf), case, what="partitioned program")
        exp = oracle.compare_outputs(case, run, what="partitioned program")
        split2 = run["stats"].get("splitUniform>=2", 0)
        # the same Einsum without partitioning (loop order over levels is meaningless there: default)
        s0 = dict(spec, partitioning={}, loop_order={})
        c0 = dict(case, spec=s0)
        hf0 = oracle.compile_or_skip(s0)
        run0 = oracle.run_or_violation(str(hf0), c0, what="unpartitioned program")
        oracle.compare_outputs(c0, run0, expected=exp, what="unpartitioned program")
        return {"nontrivial": split2 > 0 and bool(exp["Z"]), "classes": classes_of(case)}


PARTS = [Main()]
