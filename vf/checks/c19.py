"""
C19 - an omitted mapping means the canonical default.
"""
import copy

from hypothesis import strategies as st

from .. import spec as S
from .. import gen, oracle, defaults
from ..runner import Part, Violation, Skip

LEVEL = "exploration"
ASSUMPTIONS = [
    "the default is computed from the specification value by vf/defaults.py exactly as the property words it",
    "the canonical default is defined by the property for split ranks only; for flatten() (part flatten-read-back) the default the "
    "compiler chose is read back from the IR and written out: idempotence, not a canonical value",
]


def first_diff(a, b):
    la, lb = a.split("\n"), b.split("\n")
    k = next((i for i in range(min(len(la), len(lb))) if la[i] != lb[i]), min(len(la), len(lb)))
    return k, (la[k] if k < len(la) else None), (lb[k] if k < len(lb) else None)


EXCLUDED = {}


@st.composite
def c19_case(draw):
    fam = draw(st.sampled_from(["plain", "plain", "shape", "occ", "affine", "cascade", "deep-shape"]))
    if fam == "deep-shape":
        # one rank split by many directives (level numbers with two digits)
        spec = draw(gen.spec_plain(max_terms=1, allow_take=False, allow_output_only=False, allow_rank0=False, max_vars=3))
        e = spec["exprs"][0]
        r = draw(st.sampled_from([v.upper() for v in gen.input_carried_vars(e)]))
        n = draw(st.integers(8, 12))
        spec["partitioning"] = {"Z": [[r, ["uniform_shape(%d)" % draw(st.integers(1, 3)) for _ in range(n)]]]}
        spec["loop_order"] = {}
        c = {"spec": spec}
    elif fam == "plain":
        c = {"spec": draw(gen.spec_plain())}
    elif fam == "shape":
        c = draw(gen.case_shape(max_extent=4, allow_output_only=True))
    elif fam == "occ":
        c = draw(gen.case_occ(max_extent=4))
    elif fam == "affine":
        c = draw(gen.case_affine(max_extent=4, coeffs=(1, 1, 2, 3), allow_partition=False))
    else:
        c = draw(gen.case_cascade(max_extent=3, allow_flatten=False))
    return {"spec": c["spec"], "family": fam}


class Main(Part):
    name = "main"
    rule = ("Hypothesis draws an Einsum (plain, shape- or occupancy-partitioned, affine, cascade; no flatten). Three comparisons of "
            "emitted text: (1) rank-order omitted vs every tensor's declared order written out; (2) loop-order omitted vs the default "
            "written out (output ranks as written, then remaining ranks by first appearance, partitioned ranks replaced in place by "
            "their levels outermost to innermost); (3) partitioning omitted vs an explicitly empty partitioning for every output; "
            "(4) as (2) with a drawn, permuted rank-order section kept on both sides. "
            "Non-trivial = >= 2 non-output ranks, a partitioned rank, or >= 2 terms.")

    def budget(self, tier):
        return {"quick": dict(examples=400, shards=6, seconds=80),
                "thorough": dict(examples=4000, shards=16, seconds=600)}[tier]

    def strategy(self, tier):
        return c19_case()

    def describe(self, case):
        return {"yaml": S.to_yaml(case["spec"])}

    def run_case(self, case):
        spec = copy.deepcopy(case["spec"])
        from . import c01
        for name, pred in c01.EXCLUDED.items():
            if name == "scalar_shared_with_take_term" and pred(case):
                raise Skip("known-finding-of-other-property", name)   # compile-time IndexError (F-C01-2)
        # start from "as much omitted as this case allows": keep partitioning (it defines the levels), drop the orders
        base = copy.deepcopy(spec)
        base["rank_order"] = {}
        base["loop_order"] = {}
        base["spacetime"] = {}
        t_omitted = str(oracle.compile_or_skip(base, metrics=False))
        # (1) explicit declared rank order
        s1 = copy.deepcopy(base)
        s1["rank_order"] = defaults.default_rank_order(base)
        t1 = str(oracle.compile_or_skip(s1, metrics=False))
        self._same(t_omitted, t1, "rank-order omitted", "declared rank order written out", s1)
        # (2) explicit default loop order
        s2 = copy.deepcopy(base)
        for e in base["exprs"]:
            lo = defaults.default_loop_order(base, e)
            if lo:
                s2["loop_order"][S.out_name(e)] = lo
        t2 = str(oracle.compile_or_skip(s2, metrics=False))
        self._same(t_omitted, t2, "loop-order omitted", "default loop order %r written out" % (s2["loop_order"],), s2)
        # (3) no partitioning vs explicitly empty
        b3 = copy.deepcopy(base)
        b3["partitioning"] = {}
        t3a = str(oracle.compile_or_skip(b3, metrics=False))
        y = S.to_yaml(b3)
        outs = S.outputs(b3)
        extra = "  partitioning:\n" + "".join("    %s: {}\n" % o for o in outs)
        y_explicit = y + ("mapping:\n" if "mapping:" not in y else "") + extra
        try:
            from .. import execute as X
            t3b = str(X.compile_text(y_explicit))
        except X.Rejected as r:
            raise Violation("explicitly empty partitioning is refused: %s" % r, sig="empty-partitioning-refused", details={"yaml": y_explicit})
        self._same(t3a, t3b, "partitioning omitted", "explicitly empty partitioning", b3)
        # (4) the default loop order does not depend on the storage rank order: keep the drawn rank-order section
        if spec.get("rank_order"):
            b4 = copy.deepcopy(base)
            b4["rank_order"] = copy.deepcopy(spec["rank_order"])
            t4a = str(oracle.compile_or_skip(b4, metrics=False))
            s4 = copy.deepcopy(b4)
            for e in b4["exprs"]:
                lo = defaults.default_loop_order(b4, e)
                if lo:
                    s4["loop_order"][S.out_name(e)] = lo
            t4b = str(oracle.compile_or_skip(s4, metrics=False))
            self._same(t4a, t4b, "loop-order omitted (rank-order %r given)" % (spec["rank_order"],),
                       "default loop order %r written out" % (s4["loop_order"],), s4)
        e0 = base["exprs"][0]
        outv = [ie[0][1] for ie in e0["out"][1]]
        nonout = [v for v in S.expr_vars(e0) if v not in outv]
        nontrivial = len(nonout) >= 2 or bool(base["partitioning"]) or len(e0["terms"]) >= 2
        return {"nontrivial": nontrivial, "classes": ["family=" + case["family"]]}

    def _same(self, a, b, wa, wb, spec):
        if a != b:
            k, la, lb = first_diff(a, b)
            raise Violation("text with %s differs from text with %s at line %d: %r vs %r" % (wa, wb, k + 1, la, lb),
                            sig="differs:" + wa.split(" ")[0], details={"yaml": S.to_yaml(spec), "omitted": a, "explicit": b})


class FlattenReadBack(Part):
    """
    For flatten() the property does not say where the flattened rank goes in the default loop order, so no canonical default
    can be written down independently.  What it does say still applies: omitting the loop order is the same as writing the
    default explicitly - whatever default the compiler chose (read back from Program.get_loop_order()), writing exactly that
    must give the same text; and (1)/(3) hold as for every other specification.
    """
    name = "flatten-read-back"
    rule = ("flattening specifications (static, below a shape split, below an occupancy split) with rank-order and loop-order "
            "omitted: the loop order the compiler chose is read back from the IR of every Einsum and written out explicitly; the "
            "emitted text must be identical; also rank-order omitted vs declared order written out. Non-trivial = >= 2 loop ranks.")

    def budget(self, tier):
        return {"quick": dict(examples=120, shards=2, seconds=60),
                "thorough": dict(examples=1500, shards=8, seconds=400)}[tier]

    def strategy(self, tier):
        return gen.case_flat(max_extent=3)

    def describe(self, case):
        return {"yaml": S.to_yaml(case["spec"])}

    def run_case(self, case):
        from .. import execute as X
        from teaal.parse import Einsum, Mapping
        from teaal.ir.program import Program
        base = copy.deepcopy(case["spec"])
        base["rank_order"], base["loop_order"], base["spacetime"] = {}, {}, {}
        t_omitted = str(oracle.compile_or_skip(base, metrics=False))
        y = S.to_yaml(base)
        chosen = {}
        try:
            prog = Program(Einsum.from_str(y), Mapping.from_str(y))
            for i, e in enumerate(base["exprs"]):
                prog.add_einsum(i)
                chosen[S.out_name(e)] = list(prog.get_loop_order().get_ranks())
                prog.reset()
        except ValueError as ex:
            raise Skip("rejected_by_compiler", str(ex)[:80])
        s2 = copy.deepcopy(base)
        s2["loop_order"] = {k: v for k, v in chosen.items() if v}
        try:
            t2 = str(X.compile_spec(s2, False))
        except X.Rejected as r:
            raise Violation("the loop order the compiler chooses when none is given (%r) is refused when written out: %s" % (chosen, r),
                            sig="default-refused", details={"yaml": S.to_yaml(s2)})
        Main._same(self, t_omitted, t2, "loop-order omitted", "the chosen default %r written out" % (chosen,), s2)
        s1 = copy.deepcopy(base)
        s1["rank_order"] = defaults.default_rank_order(base)
        t1 = str(oracle.compile_or_skip(s1, metrics=False))
        Main._same(self, t_omitted, t1, "rank-order omitted", "declared rank order written out", s1)
        return {"nontrivial": any(len(v) >= 2 for v in chosen.values()), "classes": ["family=flat"]}


PARTS = [Main(), FlattenReadBack()]
