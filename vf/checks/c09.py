"""
C09 - the printed text denotes the syntax tree the compiler built.
"""
import ast
import glob
import os
from fractions import Fraction

from hypothesis import strategies as st

from .. import spec as S
from .. import gen, oracle, shipped
from .. import execute as X
from ..runner import Part, Violation, Skip

LEVEL = "exploration"
ASSUMPTIONS = [
    "trees are converted to Python ast by node structure (vf/tree2ast.py), EParens is transparent, negative literals are unary minus; "
    "both sides are normalised by flattening chains of ONE associative operator (+ * & |) only",
]
EXCLUDED = {}


def first_diff(a, b):
    i = next((k for k in range(min(len(a), len(b))) if a[k] != b[k]), min(len(a), len(b)))
    return a[max(0, i - 160):i + 160], b[max(0, i - 160):i + 160]


def compare(hf, spec_yaml):
    from .. import tree2ast as T
    text = str(hf)
    try:
        ok, t1, t2 = T.compare_program(hf.hifiber, text)
    except T.Unconvertible as u:
        raise AssertionError("tree2ast cannot convert node: %s" % u)
    except SyntaxError as e:
        raise Violation("emitted text is not valid Python: %s" % e, sig="syntax", details={"yaml": spec_yaml, "text": text})
    if not ok:
        a, b = first_diff(t1, t2)
        raise Violation("printed text parses to a different tree than the one built: tree ...%s... vs text ...%s..." % (a, b),
                        sig="tree-differs", details={"yaml": spec_yaml, "text": text})
    return T.mixed_nesting(ast.parse(text))


class Programs(Part):
    name = "programs"
    rule = ("Hypothesis draws a specification from every family in plain or spacetime mode; HiFiber(...).hifiber converted structurally "
            "to a Python AST must equal ast.parse(str(HiFiber(...))) after flattening chains of one associative operator. Non-trivial = "
            "the program contains a binary operation with an operand that is a binary operation of a different operator.")

    def budget(self, tier):
        return {"quick": dict(examples=500, shards=6, seconds=80),
                "thorough": dict(examples=4000, shards=16, seconds=600)}[tier]

    def strategy(self, tier):
        return gen.corpus_case(max_extent=3)

    def describe(self, case):
        return {"yaml": S.to_yaml(case["spec"]), "mode": case.get("mode")}

    def run_case(self, case):
        spec = case["spec"]
        from . import c06
        for name, pred in c06.EXCLUDED.items():
            if pred(case):
                # e.g. F-C06-2 prints the flattened rank's name, which for ranks I, N is the keyword `in`
                raise Skip("known-finding-of-other-property", name)
        hf = oracle.compile_or_skip(spec, metrics=False, crash_is_violation=False)
        mixed = compare(hf, S.to_yaml(spec))
        return {"nontrivial": mixed > 0, "classes": ["family=" + case.get("family", "?"), "mode=" + case.get("mode", "plain")]}


class Shipped(Part):
    name = "shipped"
    rule = "every shipped YAML in plain and (where available) metrics mode, same comparison"

    def budget(self, tier):
        return dict(examples=1, shards=1, seconds=60)

    def strategy(self, tier):
        return st.just({"shipped": "none"})

    def fixed_cases(self, tier):
        out = []
        for p in sorted(glob.glob(os.path.join(X.REPO, "tests/integration/*.yaml"))):
            for m in (False, True):
                out.append({"shipped": os.path.basename(p), "metrics": m})
        return out

    def describe(self, case):
        return case

    def run_case(self, case):
        if case["shipped"] == "none":
            raise Skip("placeholder")
        path = os.path.join(X.REPO, "tests/integration", case["shipped"])
        with open(path) as f:
            y = f.read()
        try:
            hf = X.compile_text(y, metrics=case["metrics"])
        except Exception as e:
            raise Skip("does-not-compile", type(e).__name__)
        if case["metrics"] and getattr(hf, "hardware", None) is None:
            raise Skip("no-hardware-sections")
        mixed = compare(hf, case["shipped"])
        return {"nontrivial": mixed > 0, "classes": ["shipped", "metrics" if case["metrics"] else "plain"]}


# --------------------------------------------------------------------------
# (b) the coordinate-expression builder in isolation


@st.composite
def coord_exprs(draw):
    """sympy expressions of the shapes solve(), the halo substitution and the level substitution produce"""
    import sympy
    names = list(draw(st.permutations(["q", "s", "p", "r", "v"])))[:draw(st.integers(1, 4))]
    coeffs = [draw(st.sampled_from([1, 1, 2, 3, 4, -1, -2, -3])) for _ in names]
    w = sympy.Symbol("w")
    expr = sum(c * sympy.Symbol(n) for c, n in zip(coeffs, names))
    kind = draw(st.sampled_from(["solve", "solve", "solve-level", "halo", "isolate", "raw", "scaled-add"]))
    target = draw(st.sampled_from(names))
    solved = sympy.solve(expr - w, sympy.Symbol(target))[0]
    if kind == "raw":
        sexpr = expr
    elif kind == "solve":
        sexpr = solved
    elif kind == "solve-level":
        sexpr = solved
        for sym in list(sexpr.atoms(sympy.Symbol)):
            if draw(st.booleans()):
                sexpr = sexpr.subs(sym, sympy.Symbol(str(sym) + "0"))
    elif kind == "halo":
        sexpr = expr.subs(sympy.Symbol(target), 0)
        for sym in list(sexpr.atoms(sympy.Symbol)):
            sexpr = sexpr.subs(sym, sympy.Symbol(str(sym).upper()) - 1)
    elif kind == "isolate":
        sexpr = solved
        keep = draw(st.sampled_from(sorted(str(x) for x in sexpr.atoms(sympy.Symbol)) or ["w"]))
        for sym in list(sexpr.atoms(sympy.Symbol)):
            if str(sym) != keep:
                sexpr = sexpr.subs(sym, 0)
    else:
        k = draw(st.sampled_from([2, 3, -2]))
        sexpr = sympy.Mul(sympy.Integer(k), sympy.Add(sympy.Symbol(names[0]), sympy.Integer(-1), evaluate=False), evaluate=False)
    # (sympy caches Symbol objects: a symbol first created by the compiler from a lark Token keeps that Token as its name,
    #  and srepr then prints Token('NAME', 'q'); the case must be plain text)
    import re as _re
    sr = _re.sub(r"Token\('[A-Za-z_]+', '([^']*)'\)", r"'\1'", sympy.srepr(sexpr))
    return {"kind": kind, "srepr": sr, "text": str(sexpr)}


def eval_ast(node, env):
    if isinstance(node, ast.Expression):
        return eval_ast(node.body, env)
    if isinstance(node, ast.Constant):
        return Fraction(node.value)
    if isinstance(node, ast.Name):
        return env[node.id]
    if isinstance(node, ast.UnaryOp) and isinstance(node.op, ast.USub):
        return -eval_ast(node.operand, env)
    if isinstance(node, ast.BinOp):
        a, b = eval_ast(node.left, env), eval_ast(node.right, env)
        if isinstance(node.op, ast.Add):
            return a + b
        if isinstance(node.op, ast.Sub):
            return a - b
        if isinstance(node.op, ast.Mult):
            return a * b
        if isinstance(node.op, ast.Div):
            return a / b
        if isinstance(node.op, ast.FloorDiv):
            return Fraction(a // b)
    raise AssertionError("unexpected node " + ast.dump(node))


class CoordBuilder(Part):
    name = "coord-builder"
    rule = ("Hypothesis draws an affine index equation (1-4 variables, coefficients in +-1..4) and derives sympy expressions the way "
            "the compiler does (solve for a variable, level substitution, halo substitution SYMBOL-1, isolation, scaled sums); "
            "CoordAccess.build_expr(sexpr) is converted structurally and compared with ast.parse of its printed text, and tree, text "
            "and the sympy expression are evaluated exactly (Fractions) on random integer bindings and must agree; additionally "
            "TransUtils.sub_hifiber of a binary step into the expression is compared tree-vs-text. Non-trivial = >= 1 mixed nesting.")

    def budget(self, tier):
        return {"quick": dict(examples=600, shards=2, seconds=60),
                "thorough": dict(examples=8000, shards=8, seconds=600)}[tier]

    def strategy(self, tier):
        @st.composite
        def strat(draw):
            c = draw(coord_exprs())
            c["bind"] = [draw(st.integers(-7, 9)) for _ in range(12)]
            return c
        return strat()

    def describe(self, case):
        return case

    def run_case(self, case):
        import sympy
        from .. import tree2ast as T
        from teaal.trans.coord_access import CoordAccess
        sexpr = sympy.sympify(case["srepr"], evaluate=False) if False else eval(case["srepr"], vars(sympy))
        try:
            hexpr = CoordAccess.build_expr(sexpr)
        except ValueError as e:
            raise Skip("rejected_by_compiler", str(e)[:60])
        text = hexpr.gen()
        tree_ast = ast.Expression(T.E(hexpr))
        text_ast = ast.parse(text, mode="eval")
        d1 = ast.dump(T.Flat().visit(tree_ast))
        d2 = ast.dump(T.Flat().visit(text_ast))
        if d1 != d2:
            raise Violation("build_expr(%s) prints %r which parses differently from the tree built" % (case["text"], text),
                            sig="expr-tree-differs", details=case)
        syms = sorted(sexpr.atoms(sympy.Symbol), key=str)
        env = {str(s): Fraction(v) for s, v in zip(syms, case["bind"])}
        want = sexpr.subs({s: sympy.Integer(int(env[str(s)])) for s in syms})
        want = Fraction(int(sympy.numer(want)), int(sympy.denom(want)))
        got_text = eval_ast(text_ast, env)
        got_tree = eval_ast(ast.Expression(T.E(hexpr)), env)
        if got_text != want or got_tree != want:
            raise Violation("build_expr(%s) = %r evaluates to %s (text) / %s (tree) but the expression is %s at %r"
                            % (case["text"], text, got_text, got_tree, want, {k: int(v) for k, v in env.items()}),
                            sig="expr-value-differs", details=case)
        return {"nontrivial": T.mixed_nesting(text_ast) > 0, "classes": ["kind=" + case["kind"]]}


class MetricsPrograms(Part):
    name = "metrics-programs"
    rule = ("D_metrics specifications (constructed architecture/bindings/format) in metrics mode: tree vs parsed text, incl. the "
            "dump's time formulas ((a + b) / rate, max(...), sums of block times). Non-trivial as for programs.")

    def budget(self, tier):
        return {"quick": dict(examples=200, shards=3, seconds=80),
                "thorough": dict(examples=2500, shards=8, seconds=600)}[tier]

    def strategy(self, tier):
        from .. import gen_metrics
        return gen_metrics.case_metrics(n_min=1, n_max=3, with_inputs=False)

    def describe(self, case):
        return {"yaml": S.to_yaml(case["spec"]), "mode": "metrics"}

    def run_case(self, case):
        if case.get("mapping_rejected"):
            raise Skip("rejected_by_compiler", "mapping")
        spec = case["spec"]
        hf = oracle.compile_or_skip(spec, metrics=True, crash_is_violation=False)
        mixed = compare(hf, S.to_yaml(spec))
        return {"nontrivial": mixed > 0, "classes": ["family=metrics", "mode=metrics"]}


class AffinePartitioned(Programs):
    name = "affine-partitioned-programs"
    rule = ("affine Einsums that are ALWAYS partitioned (1-2 levels of uniform_shape / nway_shape, follower or reverse follower, optional "
            "occupancy level; index coefficients 1-4): the place where computed steps (ceil divisions, scaled steps, halos) are "
            "substituted into larger expressions. Same comparison as the programs part.")

    def budget(self, tier):
        return {"quick": dict(examples=250, shards=3, seconds=60),
                "thorough": dict(examples=3000, shards=8, seconds=400)}[tier]

    def strategy(self, tier):
        from hypothesis import strategies as st

        @st.composite
        def strat(draw):
            c = draw(gen.case_affine(max_extent=3, allow_reverse=True, force_levels=draw(st.sampled_from([1, 1, 2]))))
            c["family"], c["mode"] = "affine-partitioned", "plain"
            return c
        return strat()


PARTS = [Programs(), Shipped(), CoordBuilder(), MetricsPrograms(), AffinePartitioned()]
