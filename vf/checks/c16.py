"""
C16 - the spacetime display is observation-only, complete and unambiguous.
"""
import copy

from hypothesis import strategies as st

from .. import spec as S
from .. import gen, oracle
from .. import hfmodel as M
from ..runner import Part, Violation, Skip
from . import c01, c04, c06

LEVEL = "exploration"
ASSUMPTIONS = [
    "createCanvas/addActivity/displayCanvas are recording stand-ins; one activity is expected immediately after each in-place update "
    "of an output payload (the model counts `+=` and `<<=` on payloads)",
    "stamps must be pairwise distinct only when every partitioned rank's levels are looped outermost to innermost (all loop ranks are "
    "always stamped: the compiler requires it)",
    "cases in known-finding classes of C01/C04/C06 are skipped and counted",
]


def coord_stamp_on_flattened_lower_level(case):
    """
    F-C16-1: a coordinate-style stamp on a level below the top level of an occupancy-partitioned flattened rank (or on an
    unpartitioned flattened rank): the stamp subtracts tuple coordinates (ijk1 - ijk2, TypeError) or reads the never-bound
    name of the bottom level (same root cause as C06's F-C06-2: Canvas.__rel_coord treats flattened ranks like scalar ones).
    """
    spec = case.get("spec") or {}
    for out, stt in (spec.get("spacetime") or {}).items():
        parts = (spec.get("partitioning") or {}).get(out, [])
        flat = ["".join(x.strip() for x in key.strip("()").split(",")) for key, _ in parts if key.startswith("(")]
        split = dict((key, len(dirs)) for key, dirs in parts if not key.startswith("("))
        for stamp in list(stt.get("space", [])) + list(stt.get("time", [])):
            if not stamp.endswith(".coord"):
                continue
            r = stamp[:-len(".coord")]
            for f in flat:
                if f not in split and r == f:
                    return True
                if f in split and r.startswith(f) and r[len(f):].isdigit() and int(r[len(f):]) < split[f]:
                    return True
    return False


def spacetime_with_follower_level_looped(case):
    """
    F-C16-2: an affine Einsum whose partitioned output rank is followed by the input rank, looped over the follower's bottom
    level ([Q1, W0, Q0]) and given any spacetime: Canvas.__build_access fails its `assert len(terms) == 1` (AssertionError).
    """
    if not case.get("part_levels") or not case.get("follower"):
        return False
    spec = case["spec"]
    out = S.outputs(spec)[0]
    lo = (spec.get("loop_order") or {}).get(out, [])
    return bool(spec.get("spacetime")) and (case["follower"] + "0") in lo


EXCLUDED = {"coord_stamp_on_flattened_lower_level": coord_stamp_on_flattened_lower_level,
            "spacetime_with_follower_level_looped": spacetime_with_follower_level_looped}


def level_ordered(spec, out):
    lo = (spec.get("loop_order") or {}).get(out, [])
    for key, dirs in (spec.get("partitioning") or {}).get(out, []):
        if key.startswith("("):
            continue
        lv = [x for x in gen.levels_of(key, len([d for d in dirs if not d.startswith("follow")]) or 0)]
        pos = [lo.index(x) for x in lv if x in lo]
        if pos != sorted(pos):
            return False
    return True


@st.composite
def st_case(draw, max_extent):
    fam = draw(st.sampled_from(["plain", "shape", "shape", "occ", "flat", "affine"]))
    if fam == "plain":
        c = draw(gen.case_of(gen.spec_plain(), max_extent=max_extent))
    elif fam == "shape":
        c = draw(gen.case_shape(max_extent=max_extent))
    elif fam == "occ":
        c = draw(gen.case_occ(max_extent=max_extent))
    elif fam == "flat":
        c = draw(gen.case_flat(max_extent=max_extent))
    else:
        c = draw(gen.case_affine(max_extent=max_extent))
    c["family"] = fam
    c = draw(gen.with_spacetime(c))
    return c


class Main(Part):
    name = "main"
    rule = ("Hypothesis draws an Einsum with a mapping from the plain/shape/occupancy/flatten/affine families, writes the loop order out "
            "and adds a spacetime section (any split of the loop ranks into space/time, each stamp R, R.pos or R.coord, optional slip), "
            "extents and inputs. Oracle: tensors equal those of the same spec without spacetime and dense evaluation; exactly one "
            "createCanvas before the first update and one displayCanvas after the last; one addActivity immediately after every "
            "in-place update; every activity has one point per displayed tensor with one coordinate per rank id of that tensor as passed "
            "to createCanvas; a coordinate-style stamp equals the loop coordinate of its rank, relative to the enclosing partition "
            "level when there is one (loop variables are read from the program's namespace at every addActivity); with level-ordered "
            "loops all (space,time) stamps are pairwise distinct. Non-trivial = >= 2 activities and "
            "a pos stamp or a coord stamp on a partition level.")

    def budget(self, tier):
        return {"quick": dict(examples=350, shards=6, seconds=80),
                "thorough": dict(examples=3000, shards=16, seconds=600)}[tier]

    def strategy(self, tier):
        return st_case(4 if tier == "quick" else 6)

    def run_case(self, case):
        spec = case["spec"]
        if not spec.get("spacetime"):
            raise Skip("no-spacetime-generated")
        for name, pred in list(c01.EXCLUDED.items()) + list(c06.EXCLUDED.items()) + \
                (list(c04.EXCLUDED.items()) if case.get("template") else []):
            if pred(case):
                raise Skip("known-finding-of-other-property", name)
        out = S.outputs(spec)[0]
        hf = oracle.compile_or_skip(spec, metrics=False)
        text = str(hf)
        det = {"yaml": S.to_yaml(spec), "text": text}
        stt0 = spec["spacetime"][out]
        watch = set()
        for stamp in list(stt0.get("space", [])) + list(stt0.get("time", [])):
            if stamp.endswith(".coord"):
                r = stamp[:-6]
                root = r.rstrip("0123456789")
                watch.add(r.lower())
                if r != root:
                    watch.add((root + str(int(r[len(root):]) + 1)).lower())
        run = oracle.run_or_violation(text, case, what="program with spacetime", watch=watch)
        exp = oracle.compare_outputs(case, run, what="program with spacetime")
        # the same spec without the spacetime section
        s0 = dict(spec, spacetime={})
        c0 = dict(case, spec=s0)
        run0 = oracle.run_or_violation(str(oracle.compile_or_skip(s0, metrics=False)), c0, what="program without spacetime")
        oracle.compare_outputs(c0, run0, expected=exp, what="program without spacetime")
        rec = run["rec"]
        updates = run["stats"].get("update", 0)
        if len(rec.canvases) != 1:
            raise Violation("createCanvas called %d times" % len(rec.canvases), sig="canvas-count", details=det)
        cv = rec.canvases[0]
        if cv.updates_at_create != 0:
            raise Violation("createCanvas called after %d updates" % cv.updates_at_create, sig="canvas-late", details=det)
        if len(rec.displayed) != 1 or rec.displayed[0] is not cv:
            raise Violation("displayCanvas called %d times" % len(rec.displayed), sig="display-count", details=det)
        if rec.updates_at_display != updates:
            raise Violation("displayCanvas called after %d of %d updates" % (rec.updates_at_display, updates), sig="display-early", details=det)
        if len(cv.acts) != updates:
            raise Violation("%d activities reported for %d executed updates" % (len(cv.acts), updates), sig="activity-count", details=det)
        if cv.updates_at_act != list(range(1, updates + 1)):
            raise Violation("activities are not reported one per update, immediately after it: update counts at the activities %r"
                            % (cv.updates_at_act[:10],), sig="activity-placement", details=det)
        if any(t is None for t in cv.tensors):
            raise Violation("createCanvas was given a non-tensor", sig="canvas-args", details=det)
        for pts, stamp in cv.acts:
            if len(pts) != len(cv.tensors):
                raise Violation("activity has %d points for %d displayed tensors" % (len(pts), len(cv.tensors)), sig="point-count", details=det)
            for p, ids, nm in zip(pts, cv.tensors, cv.names):
                if not isinstance(p, tuple) or len(p) != len(ids):
                    raise Violation("point %r for tensor %s displayed with rank ids %r" % (p, nm, ids), sig="point-arity", details=det)
            if not (isinstance(stamp, tuple) and len(stamp) == 2 and all(isinstance(x, tuple) for x in stamp)):
                raise Violation("malformed spacetime stamp %r" % (stamp,), sig="stamp-shape", details=det)
        stt = spec["spacetime"][out]
        ordered = level_ordered(spec, out)
        if ordered:
            seen = {}
            for i, (pts, stamp) in enumerate(cv.acts):
                if stamp in seen:
                    raise Violation("activities %d and %d carry the same (space, time) stamp %r" % (seen[stamp], i, stamp),
                                    sig="duplicate-stamp", details=det)
                seen[stamp] = i
        # coordinate-style stamps: the loop coordinate, relative to the enclosing partition level when there is one
        levels = {}
        for key, dirs in (spec.get("partitioning") or {}).get(out, []):
            if not key.startswith("("):
                n = len(dirs) if not dirs[0].startswith("follow") else \
                    len(dict((k, d) for k, d in spec["partitioning"][out])[dirs[0][7:-1]])
                levels[key] = n
        flat_ranks = ["".join(x.strip() for x in key.strip("()").split(",")) for key, _ in
                      (spec.get("partitioning") or {}).get(out, []) if key.startswith("(")]
        for which, part in (("space", 0), ("time", 1)):
            if which == "time" and stt.get("opt") == "slip":
                continue
            for pos_, stamp in enumerate(stt.get(which, [])):
                if not stamp.endswith(".coord"):
                    continue
                r = stamp[:-6]
                root = r.rstrip("0123456789")
                if any(r.startswith(f) for f in flat_ranks):
                    continue
                offset = None
                if root in levels and r != root:
                    lv = int(r[len(root):])
                    if lv < levels[root]:
                        offset = root + str(lv + 1)
                for (pts, st_), lvars in zip(cv.acts, cv.loop_vars):
                    if r.lower() not in lvars or (offset and offset.lower() not in lvars):
                        continue
                    want = lvars[r.lower()] - (lvars[offset.lower()] if offset else 0)
                    got = st_[part][pos_]
                    if got != want:
                        raise Violation("coordinate stamp %s is %r but the loop coordinate %s%s is %r"
                                        % (stamp, got, r.lower(), (" relative to " + offset.lower()) if offset else "", want),
                                        sig="coord-stamp-value", details=det)
        stamps = list(stt.get("space", [])) + list(stt.get("time", []))
        parts = [k for k, _ in (spec.get("partitioning") or {}).get(out, [])]
        has_pos = any(not s_.endswith(".coord") for s_ in stamps)
        rel = any(s_.endswith(".coord") and s_[:-6].rstrip("0123456789") != s_[:-6] for s_ in stamps)
        cl = ["family=" + case["family"], "slip" if stt.get("opt") else "no-slip", "level-ordered" if ordered else "scrambled"]
        if has_pos:
            cl.append("pos-stamp")
        if rel:
            cl.append("coord-on-level")
        return {"nontrivial": len(cv.acts) >= 2 and (has_pos or rel), "classes": cl}


PARTS = [Main()]
