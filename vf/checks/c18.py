"""
C18 - the stated mapping-legality rules are enforced for every instance.
"""
import copy

from hypothesis import strategies as st

from .. import spec as S
from .. import gen, oracle
from .. import execute as X
from ..runner import Part, Violation, Skip

LEVEL = "exploration"
ASSUMPTIONS = [
    "each injector introduces exactly one violation of one stated rule into a specification that compiles; instances are restricted "
    "to what the rule as stated covers (e.g. for the bindings rule the Einsum IS listed under `bindings` but has no `config` item)",
    "rejection must be a ValueError raised by parsing or by HiFiber(...) construction; any message is accepted",
]
EXCLUDED = {}


def gemm_like():
    """fixed fallback base with tensors of two ranks"""
    p = gen.plain
    return {"decl": [["A", ["K", "M"]], ["B", ["K", "N"]], ["Z", ["M", "N"]]],
            "exprs": [{"out": ["Z", [p("m"), p("n")]], "terms": [{"take": None, "factors": [
                {"t": "A", "idx": [p("k"), p("m")]}, {"t": "B", "idx": [p("k"), p("n")]}]}]}],
            "rank_order": {}, "loop_order": {}, "partitioning": {}, "spacetime": {}, "extra": {}}


def tensors_of(spec):
    return [f for t in spec["exprs"][0]["terms"] for f in t["factors"] if "t" in f]


@st.composite
def product_base(draw, min_ranks=2):
    spec = draw(gen.spec_plain(max_terms=1, allow_take=False, allow_output_only=False, allow_rank0=False))
    spec["loop_order"] = {}
    if not any(len(f["idx"]) >= min_ranks for f in tensors_of(spec)):
        spec = gemm_like()
        if min_ranks == 3:
            spec["decl"][0][1] = ["K", "M", "J"]
            spec["exprs"][0]["terms"][0]["factors"][0]["idx"].append(gen.plain("j"))
    return spec


def ranks_of(f):
    return [ie[0][1].upper() for ie in f["idx"]]


RULES = ["dup-rank-declaration", "dup-rank-rank-order", "undeclared-tensor", "repeated-tensor", "term-rank-sets-differ",
         "flatten-with-other-directive", "flatten-one-rank", "flatten-index-math", "flatten-also-partitioned",
         "flatten-flattened", "nway-after-occupancy", "shape-after-flatten", "non-flatten-on-tuple",
         "project-into-output", "output-only-flattened-in-loop-order", "bindings-without-config"]


@st.composite
def injected(draw, rule=None):
    rule = rule or draw(st.sampled_from(RULES))
    pos = 0
    ncand = 1
    yaml_text = None
    if rule in ("dup-rank-declaration", "dup-rank-rank-order"):
        base = draw(product_base())
        spec = copy.deepcopy(base)
        cands = [(n, i, j) for n, rs in spec["decl"] for i in range(len(rs)) for j in range(len(rs)) if i != j]
        pos = draw(st.integers(0, len(cands) - 1))
        ncand = len(cands)
        n, i, j = cands[pos]
        rs = list(S.decl_of(spec)[n])
        rs[i] = rs[j]
        if rule == "dup-rank-declaration":
            for d in spec["decl"]:
                if d[0] == n:
                    d[1] = rs
        else:
            spec["rank_order"] = {n: rs}
    elif rule == "undeclared-tensor":
        base = draw(gen.spec_plain(allow_take=False))
        spec = copy.deepcopy(base)
        fs = [f for t in spec["exprs"][0]["terms"] for f in t["factors"] if "t" in f]
        ncand = len(fs) + 1
        pos = draw(st.integers(0, len(fs)))
        if pos == len(fs):
            spec["exprs"][0]["out"][0] = "Zq"
        else:
            fs[pos]["t"] = "Xq"
    elif rule == "repeated-tensor":
        base = draw(gen.spec_plain(allow_take=False, max_factors=3))
        spec = copy.deepcopy(base)
        fs = [f for t in spec["exprs"][0]["terms"] for f in t["factors"] if "t" in f]
        targets = [("factor", i, j) for i in range(len(fs)) for j in range(len(fs)) if i != j] + \
                  [("output", i, None) for i in range(len(fs))]
        ncand = len(targets)
        pos = draw(st.integers(0, len(targets) - 1))
        kind, i, j = targets[pos]
        if kind == "factor":
            fs[i]["t"], fs[i]["idx"] = fs[j]["t"], copy.deepcopy(fs[j]["idx"])
        else:
            fs[i]["t"], fs[i]["idx"] = spec["exprs"][0]["out"][0], copy.deepcopy(spec["exprs"][0]["out"][1])
    elif rule == "term-rank-sets-differ":
        base = draw(gen.spec_plain(allow_take=True, allow_rank0=False, allow_output_only=False))
        spec = copy.deepcopy(base)
        e = spec["exprs"][0]
        vs = sorted(set(v for t in e["terms"] for f in t["factors"] if "t" in f for ie in f["idx"] for v in S.iexpr_vars(ie)))
        if not vs:
            base = gemm_like()
            spec = copy.deepcopy(base)
            e = spec["exprs"][0]
            vs = ["k", "m", "n"]
        mode = draw(st.sampled_from(["missing", "extra"]))
        if mode == "missing":
            k = draw(st.integers(0, len(vs) - 1))
            rs = [v for i, v in enumerate(vs) if i != k]
            pos, ncand = k, len(vs)
        else:
            rs = vs + ["x"]
            pos, ncand = 1, 2
        spec["decl"].append(["Xq", [v.upper() for v in rs]])
        newterm = {"take": None, "factors": [{"t": "Xq", "idx": [gen.plain(v) for v in rs]}]}
        where = draw(st.integers(0, len(e["terms"])))
        e["terms"].insert(where, newterm)
        pos = pos + where
    elif rule in ("flatten-with-other-directive", "flatten-one-rank", "flatten-also-partitioned", "flatten-flattened",
                  "shape-after-flatten", "non-flatten-on-tuple"):
        base = draw(product_base(min_ranks=3 if draw(st.booleans()) else 2))
        spec = copy.deepcopy(base)
        T = draw(st.sampled_from([f for f in tensors_of(spec) if len(f["idx"]) >= 2]))
        tr = ranks_of(T)
        k = draw(st.integers(2, min(3, len(tr))))
        tup = list(draw(st.permutations(tr)))[:k]
        key = "(" + ", ".join(tup) + ")"
        other = draw(st.sampled_from(["uniform_shape(2)", "nway_shape(2)", "uniform_occupancy(%s.2)" % T["t"]]))
        parts = []
        if rule == "flatten-with-other-directive":
            n_other = draw(st.integers(1, 2))
            dirs = [other] * n_other
            pos = draw(st.integers(0, n_other))
            ncand = n_other + 1
            dirs.insert(pos, "flatten()")
            parts = [[key, dirs]]
        elif rule == "flatten-one-rank":
            ncand = len(tr)
            pos = draw(st.integers(0, len(tr) - 1))
            parts = [[tr[pos], ["flatten()"]]]
        elif rule == "flatten-also-partitioned":
            ncand = k
            pos = draw(st.integers(0, k - 1))
            parts = [[tup[pos], [draw(st.sampled_from(["uniform_shape(2)", "nway_shape(2)", "uniform_occupancy(%s.2)" % T["t"]]))]],
                     [key, ["flatten()"]]]
            if draw(st.booleans()):
                parts.reverse()
        elif rule == "flatten-flattened":
            rest = [r for r in [v.upper() for v in S.expr_vars(spec["exprs"][0])] if r not in tup]
            if not rest:
                raise_skip = True
                rest = ["N"] if "N" not in tup else ["P"]
            other_rank = draw(st.sampled_from(rest))
            flat = "".join(tup)
            pair = [flat, other_rank]
            pos = draw(st.integers(0, 1))
            ncand = 2
            if pos:
                pair.reverse()
            parts = [[key, ["flatten()"]], ["(" + ", ".join(pair) + ")", ["flatten()"]]]
            if draw(st.integers(0, 2)) == 0:
                # the flattened rank is first split by occupancy and its bottom level is flattened again
                n_occ = draw(st.integers(1, 2))
                pair = [flat + "0", other_rank]
                if pos:
                    pair.reverse()
                parts = [[key, ["flatten()"]], [flat, ["uniform_occupancy(%s.2)" % T["t"]] * n_occ],
                         ["(" + ", ".join(pair) + ")", ["flatten()"]]]
        elif rule == "shape-after-flatten":
            flat = "".join(tup)
            pre = draw(st.integers(0, 2))
            dirs = ["uniform_occupancy(%s.2)" % T["t"]] * pre
            pos, ncand = pre, 3
            dirs.append(draw(st.sampled_from(["uniform_shape(2)", "nway_shape(2)"])) if pre == 0 else "uniform_shape(2)")
            parts = [[key, ["flatten()"]], [flat, dirs]]
        else:  # non-flatten-on-tuple
            n_dirs = draw(st.integers(1, 2))
            parts = [[key, [other] * n_dirs]]
            pos, ncand = k - 2 + (n_dirs - 1) * 2, 4
        if draw(st.booleans()):
            parts = list(reversed(parts))     # the order in which the mapping lists the entries must not matter
        spec["partitioning"] = {"Z": parts}
    elif rule == "nway-after-occupancy":
        base = draw(product_base())
        spec = copy.deepcopy(base)
        T = draw(st.sampled_from(tensors_of(spec)))
        r = draw(st.sampled_from(ranks_of(T)))
        n = draw(st.integers(2, 4))
        occ_at = draw(st.integers(0, n - 2))
        nway_at = draw(st.integers(occ_at + 1, n - 1))
        dirs = []
        for i in range(n):
            if i == occ_at:
                dirs.append("uniform_occupancy(%s.2)" % T["t"])
            elif i == nway_at:
                dirs.append("nway_shape(2)")
            elif i < occ_at:
                dirs.append(draw(st.sampled_from(["uniform_shape(3)", "nway_shape(3)"])))
            else:
                dirs.append(draw(st.sampled_from(["uniform_occupancy(%s.3)" % T["t"], "uniform_shape(3)"])))
        pos, ncand = nway_at + occ_at, 2 * n
        spec["partitioning"] = {"Z": [[r, dirs]]}
    elif rule in ("flatten-index-math", "project-into-output"):
        c = draw(gen.case_affine(max_extent=3, allow_partition=False))
        base = copy.deepcopy(c["spec"])
        base["loop_order"] = {}
        spec = copy.deepcopy(base)
        e = spec["exprs"][0]
        out = e["out"][0]
        if rule == "project-into-output":
            trank, terms = c["affine"][draw(st.integers(0, len(c["affine"]) - 1))]
            outs = [ie[0][1].upper() for ie in e["out"][1]]
            cand = [v for _, v in terms if v in outs]
            ncand = len(cand)
            pos = draw(st.integers(0, len(cand) - 1))
            loop = [v.upper() for v in S.expr_vars(e)]
            if len(c["affine"]) == 1 and draw(st.integers(0, 3)) == 0:
                # over-specified: the tensor's own rank is looped IN ADDITION to every index variable of its equation, so one
                # of them - in particular the output's - would have to be obtained by projection
                loop.insert(draw(st.integers(0, len(loop))), trank)
                pos = 1
                spec["loop_order"] = {out: loop if draw(st.booleans()) else list(draw(st.permutations(loop)))}
            else:
                loop[loop.index(cand[pos])] = trank
                spec["loop_order"] = {out: list(draw(st.permutations(loop)))}
        else:
            # flatten a rank used in index math (the tensor's own rank or an index variable of the equation) with another rank
            trank, terms = c["affine"][draw(st.integers(0, len(c["affine"]) - 1))]
            math_ranks = [trank] + [v for _, v in terms]
            if len(terms) == 1 and terms[0][0] == 1:
                math_ranks = [trank]   # renaming A[m] over rank I: both I and M are in index math (m = i)
                math_ranks.append(terms[0][1])
            cands = []
            for f in tensors_of(spec):
                trs = [n for n in S.decl_of(spec)[f["t"]]]
                for r in trs:
                    if r in math_ranks:
                        for o in trs:
                            if o != r:
                                cands.append((r, o))
            if not cands:
                # give both tensors an extra channel rank so that there is something to flatten with
                spec["rank_order"] = {}
                for d in spec["decl"]:
                    if d[0] in ("I", "F", "A"):
                        d[1].append("C")
                for f in tensors_of(spec):
                    if f["t"] in ("I", "F", "A"):
                        f["idx"].append(gen.plain("c"))
                base = copy.deepcopy(spec)
                for f in tensors_of(spec):
                    trs = S.decl_of(spec)[f["t"]]
                    for r in trs:
                        if r in math_ranks:
                            cands.append((r, "C"))
            ncand = len(cands)
            pos = draw(st.integers(0, len(cands) - 1))
            pair = list(cands[pos])
            if draw(st.booleans()):
                pair.reverse()
            spec["partitioning"] = {out: [["(" + ", ".join(pair) + ")", ["flatten()"]]]}
    elif rule == "output-only-flattened-in-loop-order":
        # Z[m, n] = A[k, m] * B[k, n]-like: flatten two output ranks that no single input carries together
        base = gemm_like()
        extra = draw(st.booleans())
        if extra:
            base["decl"][2][1].append("P")
            base["exprs"][0]["out"][1].append(gen.plain("p"))
            base["decl"].append(["C", ["P"]])
            base["exprs"][0]["terms"][0]["factors"].append({"t": "C", "idx": [gen.plain("p")]})
        spec = copy.deepcopy(base)
        outr = list(spec["decl"][2][1])
        k = draw(st.integers(2, len(outr)))
        tup = list(draw(st.permutations(outr)))[:k]
        flat = "".join(tup)
        rest = [r for r in ["K"] + outr if r not in tup]
        lo = list(draw(st.permutations(rest + [flat])))
        pos, ncand = lo.index(flat), len(lo)
        spec["partitioning"] = {"Z": [["(" + ", ".join(tup) + ")", ["flatten()"]]]}
        spec["loop_order"] = {"Z": lo}
    else:  # bindings-without-config
        n = draw(st.integers(1, 3))
        names = ["T%d" % i for i in range(n - 1)] + ["Z"]
        decl = [["A", ["K"]]] + [[o, ["K"]] for o in names]
        exprs = []
        prev = "A"
        for o in names:
            exprs.append({"out": [o, [gen.plain("k")]], "terms": [{"take": None, "factors": [{"t": prev, "idx": [gen.plain("k")]}]}]})
            prev = o
        base = {"decl": decl, "exprs": exprs, "rank_order": {}, "loop_order": {}, "partitioning": {},
                "spacetime": {o: {"space": [], "time": ["K"]} for o in names}, "extra": {}}
        arch = {"accel": [{"name": "System", "attributes": {"clock_frequency": 1000},
                           "local": [{"name": "Mem", "class": "DRAM", "attributes": {"bandwidth": 128}}]}]}
        fmt = {t: {"default": {"rank-order": ["K"], "K": {"format": "C", "pbits": 32}}} for t, _ in decl}
        pos = draw(st.integers(0, n - 1))
        ncand = n
        good, bad = {}, {}
        for i, o in enumerate(names):
            entry = [{"config": "accel", "prefix": "tmp/" + o},
                     {"component": "Mem", "bindings": [{"tensor": "A" if i == 0 else names[i - 1], "rank": "K", "type": "payload", "format": "default"}]}]
            good[o] = entry
            bad[o] = entry[1:] if i == pos else entry
        base["extra"] = {"architecture": arch, "bindings": good, "format": fmt}
        spec = copy.deepcopy(base)
        spec["extra"]["bindings"] = bad
    return {"rule": rule, "base": base, "spec": spec, "position": pos, "candidates": ncand}


class Main(Part):
    name = "main"
    rule = ("Hypothesis draws one of 16 injectors (one per stated rule; two for duplicate ranks) and a legal, compiling base "
            "specification, and introduces exactly that violation at a drawn position (which rank / factor / directive position / "
            "tuple member / Einsum). Oracle: the base compiles; the injected specification raises ValueError during parsing or "
            "HiFiber(...) construction - compiling successfully or raising any other exception type is a violation. Non-trivial = the "
            "injection position is not the first candidate position; distinct by (rule, injected YAML).")

    def budget(self, tier):
        return {"quick": dict(examples=450, shards=6, seconds=80),
                "thorough": dict(examples=4000, shards=16, seconds=600)}[tier]

    def strategy(self, tier):
        return injected()

    def describe(self, case):
        return {"rule": case["rule"], "position": case["position"], "injected_yaml": S.to_yaml(case["spec"])}

    def run_case(self, case):
        metrics = case["rule"] == "bindings-without-config"
        try:
            X.compile_spec(case["base"], metrics=metrics)
        except X.Rejected as r:
            raise Skip("base-rejected", "%s: %s" % (case["rule"], str(r)[:60]))
        except Exception as e:
            raise Skip("base-crashed", "%s: %s" % (case["rule"], type(e).__name__))
        y = S.to_yaml(case["spec"])
        det = {"rule": case["rule"], "yaml": y, "base_yaml": S.to_yaml(case["base"])}
        try:
            hf = X.compile_spec(case["spec"], metrics=metrics)
        except X.Rejected:
            return {"nontrivial": case["position"] > 0, "classes": ["rule=" + case["rule"]]}
        except Exception as e:
            raise Violation("rule %s: the violating specification is refused with %s (%s) instead of ValueError [%s]"
                            % (case["rule"], type(e).__name__, str(e)[:100], X.innermost_teaal_frame(e)),
                            sig="wrong-exception:%s:%s" % (case["rule"], type(e).__name__), details=det)
        det["text"] = str(hf)
        raise Violation("rule %s: the violating specification is silently compiled" % case["rule"],
                        sig="compiled:" + case["rule"], details=det)


PARTS = [Main()]
