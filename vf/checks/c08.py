"""
C08 - emission-order nondeterminism is benign.
"""
import collections
import hashlib
import json
import os
import subprocess
import sys

from hypothesis import strategies as st

from .. import spec as S
from .. import gen, gen_metrics, oracle, metrics_xref
from .. import execute as X
from ..runner import Part, Violation, Skip, VERIF
from . import c01, c04, c06

LEVEL = "exploration"
ASSUMPTIONS = [
    "hash seeds are sampled: 8 (quick) / 32 (thorough) worker processes, each started with its own PYTHONHASHSEED derived from "
    "VERIF_SEED; all 2^32 seeds cannot be enumerated",
    "a specification that compiles under some sampled seeds and raises under others is counted as a violation (the emitted text would "
    "then exist only for some seeds); one that raises under all of them is dropped as refused",
    "distinct texts are executed on the reference model (DESIGN.md 3.2) and analysed with C06's definite-assignment analysis",
]
EXCLUDED = {}


class Workers:
    def __init__(self, seeds):
        self.procs = []
        for s_ in seeds:
            env = dict(os.environ, PYTHONHASHSEED=str(s_), PYTHONDONTWRITEBYTECODE="1")
            p = subprocess.Popen([sys.executable, "-m", "vf.seedworker"], cwd=VERIF, env=env, stdin=subprocess.PIPE,
                                 stdout=subprocess.PIPE, text=True, bufsize=1)
            self.procs.append((s_, p))

    def compile_all(self, yaml_text, metrics):
        req = json.dumps({"yaml": yaml_text, "metrics": metrics}) + "\n"
        for _, p in self.procs:
            p.stdin.write(req)
            p.stdin.flush()
        out = []
        for s_, p in self.procs:
            line = p.stdout.readline()
            if not line:
                raise RuntimeError("hash-seed worker %s died" % s_)
            out.append(json.loads(line))
        return out

    def close(self):
        for _, p in self.procs:
            try:
                p.stdin.close()
                p.wait(timeout=5)
            except Exception:
                p.kill()


def worker_seeds(verif_seed, shard, n):
    out = []
    k = 0
    while len(out) < n:
        h = hashlib.sha1(("%d/%d/%d" % (verif_seed, shard, k)).encode()).digest()
        v = int.from_bytes(h[:4], "big") % 4294967295 + 1
        if v not in out:
            out.append(v)
        k += 1
    return out


@st.composite
def c08_case(draw, max_extent):
    fam = draw(st.sampled_from(["shape2", "shape2", "occ", "flat", "flat2", "flat2", "metrics", "metrics", "cascade"]))
    metrics = False
    if fam == "shape2":
        c = draw(gen.case_shape(max_extent=max_extent))
    elif fam == "occ":
        c = draw(gen.case_occ(max_extent=max_extent))
    elif fam == "flat":
        c = draw(gen.case_flat(max_extent=max_extent))
    elif fam == "flat2":
        c = draw(gen.case_flat2(max_extent=max_extent))
    elif fam == "cascade":
        c = draw(gen.case_cascade(max_extent=3))
    else:
        c = draw(gen_metrics.case_metrics(n_min=1, n_max=2, max_extent=max_extent))
        metrics = not c.get("mapping_rejected")
    c["family"] = fam
    c["metrics_mode"] = metrics
    return c


def registrations(text):
    """multiset of trace registrations / collection calls of a metrics-mode text (order-insensitive)"""
    import re
    return collections.Counter(re.findall(r"Metrics\.(?:trace|registerRank|beginCollect|endCollect)\([^)]*\)", text))


class Main(Part):
    name = "main"
    rule = ("Hypothesis draws a specification from the families where sets are iterated (>= 1 shape-partitioned ranks, occupancy, "
            "flattening, TWO flattenings on one tensor incl. dynamic ones, cascades, constructed metrics specifications) with inputs; "
            "it is compiled twice in each of 8/32 worker processes started with different PYTHONHASHSEED values. Within a worker both "
            "texts must be identical; either all workers compile it or none; every DISTINCT text must be closed Python (C06's "
            "analysis) and, executed on the same inputs, yield the dense-evaluation tensors (metrics texts: also pass the trace "
            "cross-reference and register the same multiset of traces). Non-trivial = >= 2 distinct texts were produced.")

    def budget(self, tier):
        return {"quick": dict(examples=400, shards=2, seconds=80, workers=8),
                "thorough": dict(examples=1500, shards=4, seconds=600, workers=32)}[tier]

    def strategy(self, tier):
        return c08_case(4 if tier == "quick" else 6)

    def setup_shard(self, tier, seed, shard):
        self.seeds = worker_seeds(seed, shard, self.budget(tier)["workers"])
        self.workers = Workers(self.seeds)

    def teardown_shard(self):
        if getattr(self, "workers", None):
            self.workers.close()
            self.workers = None

    def run_case(self, case):
        spec = case["spec"]
        if case.get("mapping_rejected"):
            raise Skip("rejected_by_compiler", "mapping")
        for name, pred in list(c01.EXCLUDED.items()) + list(c06.EXCLUDED.items()):
            if pred(case):
                raise Skip("known-finding-of-other-property", name)
        metrics = case.get("metrics_mode", False)
        y = S.to_yaml(spec)
        det = {"yaml": y, "hash_seeds": self.seeds}
        results = self.workers.compile_all(y, metrics)
        ok = [r for r in results if r["ok"]]
        bad = [r for r in results if not r["ok"]]
        if ok and bad:
            raise Violation("compiles under PYTHONHASHSEED=%s but raises %s (%s) [%s] under PYTHONHASHSEED=%s"
                            % (ok[0]["seed"], bad[0]["etype"], bad[0]["error"][:100], bad[0]["frame"], bad[0]["seed"]),
                            sig="seed-dependent-failure:" + bad[0]["etype"], details=det)
        if not ok:
            if bad[0]["etype"] == "ValueError":
                raise Skip("rejected_by_compiler", bad[0]["error"][:60])
            raise Skip("compiler_crash", "%s %s" % (bad[0]["etype"], bad[0]["frame"]))
        for r in ok:
            if r["texts"][0] != r["texts"][1]:
                raise Violation("compiling the same specification twice in one process (PYTHONHASHSEED=%s) gives different texts" % r["seed"],
                                sig="not-repeatable", details=dict(det, first=r["texts"][0], second=r["texts"][1]))
        distinct = {}
        for r in ok:
            distinct.setdefault(r["texts"][0], r["seed"])
        regs = None
        for text, sd in distinct.items():
            d2 = dict(det, text=text, hash_seed=sd)
            try:
                c06.assert_closed(text, spec, what="text emitted under PYTHONHASHSEED=%s" % sd)
            except Violation as v:
                v.details.update(hash_seed=sd)
                raise
            run = oracle.run_or_violation(text, case, what="text emitted under PYTHONHASHSEED=%s" % sd)
            oracle.compare_outputs(case, run, what="text emitted under PYTHONHASHSEED=%s" % sd)
            if metrics:
                try:
                    metrics_xref.analyse(text)
                except metrics_xref.XrefError as e:
                    raise Violation("text emitted under PYTHONHASHSEED=%s: metrics cross-reference: %s" % (sd, e), sig="xref:" + e.kind, details=d2)
                rg = registrations(text)
                if regs is not None and rg != regs[0]:
                    diff = (rg - regs[0]) + (regs[0] - rg)
                    raise Violation("texts emitted under PYTHONHASHSEED=%s and %s register different traces: %r" % (regs[1], sd, list(diff)[:4]),
                                    sig="registrations-differ", details=d2)
                regs = (rg, sd)
        cl = ["family=" + case["family"], "distinct-texts=%d" % len(distinct)]
        return {"nontrivial": len(distinct) >= 2, "classes": cl}


PARTS = [Main()]
