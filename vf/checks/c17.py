"""
C17 - specification text is parsed into exactly the structure written.
"""
import os
import re

from hypothesis import strategies as st

from .. import refparse
from ..runner import Part, Violation, Skip

LEVEL = "exploration"
ASSUMPTIONS = [
    "parse trees are read back by vf/refparse.py, which walks lark trees by rule name only (no compiler helper is used)",
    "part (b) does not decide grammar membership independently: an accepted string must be LOSSLESS (the canonical re-rendering of "
    "the extracted structure equals the input modulo spaces/tabs and the spelling of integer literals), so a string the grammar "
    "legitimately accepts can never raise an alarm",
]
EXCLUDED = {}

NAMES = ["A", "B", "Z", "T0", "a", "k", "m", "n", "take", "taken", "take_", "_x", "a_b", "K1", "uniform", "pos", "coord",
         "follow", "flatten", "x9", "Q", "MK0", "I"]
WS = ["", "", " ", "  ", "\t", " \t "]


def names():
    return st.sampled_from(NAMES) | st.from_regex(r"[A-Za-z_][A-Za-z0-9_]{0,5}", fullmatch=True)


def numbers():
    """(value, spelling)"""
    return st.integers(0, 99999).flatmap(lambda v: st.sampled_from([str(v), "0" + str(v), "00" + str(v)]).map(lambda s: (v, s)))


@st.composite
def iexprs(draw):
    n = draw(st.integers(1, 3))
    terms, toks = [], []
    for i in range(n):
        if i:
            toks.append("+")
        if draw(st.booleans()):
            v = draw(names())
            terms.append(["just", v])
            toks.append(v)
        else:
            val, sp = draw(numbers())
            neg = draw(st.booleans())
            v = draw(names())
            terms.append(["times", -val if neg else val, v])
            if neg:
                toks.append("-")
            toks += [sp, "*", v]
    return terms, toks


@st.composite
def accesses(draw):
    name = draw(names())
    n = draw(st.integers(0, 3))
    idx, toks = [], [name, "["]
    for i in range(n):
        if i:
            toks.append(",")
        ie, t = draw(iexprs())
        idx.append(ie)
        toks += t
    toks.append("]")
    return name, idx, toks


@st.composite
def factors(draw):
    if draw(st.integers(0, 3)) == 0:
        v = draw(names())
        return {"v": v}, [v]
    n, idx, toks = draw(accesses())
    return {"t": n, "idx": idx}, toks


@st.composite
def einsums(draw):
    on, oidx, toks = draw(accesses())
    toks.append("=")
    nterms = draw(st.integers(1, 3))
    terms = []
    for i in range(nterms):
        if i:
            toks.append("+")
        nf = draw(st.integers(1, 3))
        fs, ft = [], []
        take = draw(st.integers(0, 3)) == 0
        for j in range(nf):
            f, t = draw(factors())
            fs.append(f)
            if j:
                ft.append("," if take else "*")
            ft += t
        if take:
            val, sp = draw(numbers())
            terms.append({"take": val, "factors": fs})
            toks += ["take("] + ft + [",", sp, ")"]
        else:
            terms.append({"take": None, "factors": fs})
            toks += ft
    return {"out": [on, oidx], "terms": terms}, toks


@st.composite
def directives(draw):
    kind = draw(st.sampled_from(["nway_shape", "uniform_shape", "uniform_occupancy", "flatten", "follow"]))

    def size():
        if draw(st.booleans()):
            val, sp = draw(numbers())
            return ["int", val], sp
        v = draw(names())
        return ["str", v], v
    if kind in ("nway_shape", "uniform_shape"):
        s, sp = size()
        return {"kind": kind, "size": s}, [kind + "(", sp, ")"]
    if kind == "uniform_occupancy":
        ld = draw(names())
        s, sp = size()
        return {"kind": kind, "leader": ld, "size": s}, [kind + "(", ld, ".", sp, ")"]
    if kind == "flatten":
        return {"kind": kind}, ["flatten(", ")"]
    ld = draw(names())
    return {"kind": kind, "leader": ld}, ["follow(", ld, ")"]


@st.composite
def rank_tuples(draw):
    if draw(st.booleans()):
        v = draw(names())
        return [v], [v]
    vs = draw(st.lists(names(), min_size=2, max_size=4))
    toks = ["("]
    for i, v in enumerate(vs):
        if i:
            toks.append(",")
        toks.append(v)
    toks.append(")")
    return vs, toks


@st.composite
def stamps(draw):
    v = draw(names())
    style = draw(st.sampled_from(["default", "pos", "coord"]))
    if style == "default":
        return {"rank": v, "style": "pos"}, [v]
    return {"rank": v, "style": style}, [v, "." + style]


@st.composite
def levels(draw):
    v = draw(names())
    if draw(st.booleans()):
        return {"name": v, "last": None}, [v]
    val, sp = draw(numbers())
    return {"name": v, "last": val}, [v, "[0..", sp, "]"]


GRAMMARS = {"einsum": einsums, "directive": directives, "rank-tuple": rank_tuples, "stamp": stamps, "level": levels}


def parse(kind, text):
    from teaal.parse.equation import EquationParser
    from teaal.parse.partitioning import PartitioningParser
    from teaal.parse.spacetime import SpaceTimeParser
    from teaal.parse.level import LevelParser
    if kind == "einsum":
        return refparse.einsum(EquationParser.parse(text))
    if kind == "directive":
        return refparse.directive(PartitioningParser.parse_partitioning(text))
    if kind == "rank-tuple":
        return refparse.rank_tuple(PartitioningParser.parse_ranks(text))
    if kind == "stamp":
        return refparse.stamp(SpaceTimeParser.parse(text))
    return refparse.level(LevelParser.parse(text))


@st.composite
def rendered(draw):
    kind = draw(st.sampled_from(["einsum", "einsum", "directive", "rank-tuple", "stamp", "level"]))
    struct, toks = draw(GRAMMARS[kind]())
    parts = [draw(st.sampled_from(WS))]
    for i, t in enumerate(toks):
        parts.append(t)
        # two adjacent identifier/number tokens need a separator (never produced by these grammars) - none required
        parts.append(draw(st.sampled_from(WS)))
    return {"kind": kind, "struct": struct, "tokens": toks, "text": "".join(parts)}


def nontrivial_struct(kind, s):
    if kind == "einsum":
        return len(s["terms"]) >= 2 or any(t["take"] is not None for t in s["terms"]) or \
            any(it[0] == "times" and it[1] < 0 for acc in [s["out"][1]] + [f["idx"] for t in s["terms"] for f in t["factors"] if "t" in f]
                for ie in acc for it in ie)
    if kind == "directive":
        return s["kind"] == "uniform_occupancy" or s.get("size", [None])[0] == "str"
    if kind == "rank-tuple":
        return len(s) >= 2
    if kind == "stamp":
        return True
    return s["last"] is not None


class RoundTrip(Part):
    name = "round-trip"
    rule = ("Hypothesis draws a structure for one of the five grammars (Einsum expression with signed multi-digit/zero coefficients, "
            "keyword-like names take/taken/take_, empty rank lists, 1-3 terms, take selectors; partitioning directive; rank tuple; "
            "spacetime stamp; level name) and renders it with random spaces/tabs between tokens; the public parser class must accept "
            "it and the tree, read back by the independent extractor, must equal the generating structure; for level names "
            "Architecture must report num == N + 1. Non-trivial = >= 2 terms / negative coefficient / take / occupancy or symbolic "
            "size / tuple / any stamp / instance range.")

    def budget(self, tier):
        return {"quick": dict(examples=1200, shards=6, seconds=80),
                "thorough": dict(examples=20000, shards=16, seconds=600)}[tier]

    def strategy(self, tier):
        return rendered()

    def describe(self, case):
        return {"kind": case["kind"], "text": case["text"], "struct": case["struct"]}

    def run_case(self, case):
        kind, text = case["kind"], case["text"]
        try:
            got = parse(kind, text)
        except refparse.ExtractError as e:
            raise Violation("%s %r parses to an unexpected tree shape: %s" % (kind, text, e), sig="shape:" + kind, details=case)
        except Exception as e:
            raise Violation("valid %s %r is rejected: %s: %s" % (kind, text, type(e).__name__, str(e)[:120]),
                            sig="rejected:" + kind, details=case)
        if got != case["struct"]:
            raise Violation("%s %r parsed as %r, written %r" % (kind, text, got, case["struct"]), sig="differs:" + kind, details=case)
        if kind == "level":
            from teaal.parse.arch import Architecture
            y = {"architecture": {"cfg": [{"name": text}]}}
            spec = Architecture(y).get_spec()
            tree = spec["architecture"]["cfg"][0]
            want = 1 if case["struct"]["last"] is None else case["struct"]["last"] + 1
            if tree["name"] != case["struct"]["name"] or tree["num"] != want:
                raise Violation("level %r: Architecture reports name=%r num=%r, expected %r/%d"
                                % (text, tree["name"], tree["num"], case["struct"]["name"], want), sig="arch-num", details=case)
        return {"nontrivial": nontrivial_struct(kind, case["struct"]), "classes": ["kind=" + kind]}


# --------------------------------------------------------------------------
# (b) near misses: accepted strings must be lossless


def canon_einsum(s):
    def ie(terms):
        return "+".join(t[1] if t[0] == "just" else "%d*%s" % (t[1], t[2]) for t in terms)

    def acc(n, idx):
        return "%s[%s]" % (n, ",".join(ie(x) for x in idx))

    def fac(f):
        return f["v"] if "v" in f else acc(f["t"], f["idx"])
    ts = []
    for t in s["terms"]:
        if t["take"] is None:
            ts.append("*".join(fac(f) for f in t["factors"]))
        else:
            ts.append("take(" + ",".join(fac(f) for f in t["factors"]) + ",%d)" % t["take"])
    return acc(*s["out"]) + "=" + "+".join(ts)


def canon(kind, s):
    if kind == "einsum":
        return canon_einsum(s)
    if kind == "directive":
        sz = lambda x: str(x[1])  # noqa: E731
        k = s["kind"]
        if k in ("nway_shape", "uniform_shape"):
            return "%s(%s)" % (k, sz(s["size"]))
        if k == "uniform_occupancy":
            return "%s(%s.%s)" % (k, s["leader"], sz(s["size"]))
        if k == "flatten":
            return "flatten()"
        return "follow(%s)" % s["leader"]
    if kind == "rank-tuple":
        return s[0] if len(s) == 1 else "(" + ",".join(s) + ")"
    if kind == "stamp":
        return s["rank"] + "." + s["style"]
    return s["name"] if s["last"] is None else "%s[0..%d]" % (s["name"], s["last"])


def tokens_of(kind, s):
    """canonical token sequence of an extracted structure; integer tokens are ("int", value)"""
    def num(v):
        return ([("sym", "-")] if v < 0 else []) + [("int", abs(v))]

    def ie(terms):
        out = []
        for i, t in enumerate(terms):
            if i:
                out.append(("sym", "+"))
            if t[0] == "just":
                out.append(("name", t[1]))
            else:
                out += num(t[1]) + [("sym", "*"), ("name", t[2])]
        return out

    def acc(n, idx):
        out = [("name", n), ("sym", "[")]
        for i, x in enumerate(idx):
            if i:
                out.append(("sym", ","))
            out += ie(x)
        return out + [("sym", "]")]

    def fac(f):
        return [("name", f["v"])] if "v" in f else acc(f["t"], f["idx"])
    if kind == "einsum":
        out = acc(*s["out"]) + [("sym", "=")]
        for i, t in enumerate(s["terms"]):
            if i:
                out.append(("sym", "+"))
            if t["take"] is None:
                for j, f in enumerate(t["factors"]):
                    if j:
                        out.append(("sym", "*"))
                    out += fac(f)
            else:
                out.append(("sym", "take("))
                for f in t["factors"]:
                    out += fac(f) + [("sym", ",")]
                out += [("int", t["take"]), ("sym", ")")]
        return out
    if kind == "directive":
        def sz(x):
            return [("int", x[1])] if x[0] == "int" else [("name", x[1])]
        k = s["kind"]
        if k in ("nway_shape", "uniform_shape"):
            return [("sym", k + "(")] + sz(s["size"]) + [("sym", ")")]
        if k == "uniform_occupancy":
            return [("sym", k + "("), ("name", s["leader"]), ("sym", ".")] + sz(s["size"]) + [("sym", ")")]
        if k == "flatten":
            return [("sym", "flatten("), ("sym", ")")]
        return [("sym", "follow("), ("name", s["leader"]), ("sym", ")")]
    if kind == "rank-tuple":
        if len(s) == 1:
            return [("name", s[0])]
        out = [("sym", "(")]
        for i, v in enumerate(s):
            if i:
                out.append(("sym", ","))
            out.append(("name", v))
        return out + [("sym", ")")]
    if kind == "stamp":
        return [("name", s["rank"]), ("sym", "." + s["style"])]
    if s["last"] is None:
        return [("name", s["name"])]
    return [("name", s["name"]), ("sym", "[0.."), ("int", s["last"]), ("sym", "]")]


def match_tokens(text, toks):
    """
    True iff `text` is exactly the token sequence with optional spaces/tabs BETWEEN tokens (never inside one).
    Integer tokens match any spelling of the value (leading zeros); a zero may carry a sign the value does not keep.
    """
    i = 0
    n = len(text)

    def skip(i):
        while i < n and text[i] in " \t":
            i += 1
        return i
    k = 0
    while k < len(toks):
        kind_, val = toks[k]
        i = skip(i)
        if kind_ == "int":
            if val == 0 and i < n and text[i] == "-":
                i = skip(i + 1)          # "-0" is the value 0
            j = i
            while j < n and text[j].isdigit():
                j += 1
            if j == i or int(text[i:j]) != val:
                return False
            i = j
        else:
            if not text.startswith(val, i):
                return False
            i += len(val)
            if kind_ == "name" and i < n and (text[i].isalnum() or text[i] == "_"):
                return False
        k += 1
    return skip(i) == n


def squash(text):
    return text.replace(" ", "").replace("\t", "")


def lossless(kind, text, struct):
    if match_tokens(text, tokens_of(kind, struct)):
        return True
    if kind == "stamp" and struct["style"] == "pos" and match_tokens(text, [("name", struct["rank"])]):
        return True          # the default style is pos
    return False


ALPHABET = list("ABkmn_019 \t[](),.*+-=") + ["take(", "0..", ".pos", ".coord", "flatten(", "follow(", "uniform_shape(", "nway_shape(",
                                              "uniform_occupancy("]


@st.composite
def near_miss(draw):
    r = draw(rendered())
    text = r["text"]
    mode = draw(st.sampled_from(["delete", "insert", "duplicate", "swap", "append", "replace", "random", "digit", "digit", "operator"]))
    if mode == "random":
        text = "".join(draw(st.lists(st.sampled_from(ALPHABET), min_size=1, max_size=12)))
    elif mode in ("digit", "operator"):
        # a digit replaced by another digit (lower bounds, sizes, coefficients), an operator / separator by a similar one
        pool = "0123456789" if mode == "digit" else "+-*,.=()[]"
        pos = [k for k, ch in enumerate(text) if ch in pool]
        if pos:
            i = draw(st.sampled_from(pos))
            others = [ch for ch in pool if ch != text[i]]
            if mode == "digit":
                # off-by-one digits are the realistic near misses ([1..N], a size or coefficient one off)
                d = int(text[i])
                others = [str((d + 1) % 10), str((d - 1) % 10)] * 3 + others
            text = text[:i] + draw(st.sampled_from(others)) + text[i + 1:]
    elif text:
        i = draw(st.integers(0, len(text) - 1))
        if mode == "delete":
            text = text[:i] + text[i + 1:]
        elif mode == "insert":
            text = text[:i] + draw(st.sampled_from(ALPHABET)) + text[i:]
        elif mode == "duplicate":
            j = draw(st.integers(i, min(len(text), i + 6)))
            text = text[:j] + text[i:j] + text[j:]
        elif mode == "swap" and i + 1 < len(text):
            text = text[:i] + text[i + 1] + text[i] + text[i + 2:]
        elif mode == "append":
            text = text + draw(st.sampled_from(ALPHABET + ["]", ")", " x", "+", "1"]))
        else:
            text = text[:i] + draw(st.sampled_from(ALPHABET)) + text[i + 1:]
    return {"kind": r["kind"], "text": text, "origin": r["text"], "mode": mode}


class NearMiss(Part):
    name = "near-miss"
    rule = ("valid renderings are mutated (delete / insert / duplicate / swap / append / replace a character or token; a digit by another "
            "digit; an operator or separator by a similar one) and arbitrary "
            "short strings over the grammars' alphabet are drawn; the parser must raise, or the accepted string must be lossless: "
            "re-rendering the extracted structure canonically gives the input modulo spaces/tabs and the spelling of integers. "
            "Non-trivial = the mutated string differs (modulo whitespace) from its origin; both outcomes are counted as classes.")

    def budget(self, tier):
        return {"quick": dict(examples=1500, shards=6, seconds=80),
                "thorough": dict(examples=30000, shards=16, seconds=600)}[tier]

    def strategy(self, tier):
        return near_miss()

    def describe(self, case):
        return case

    def run_case(self, case):
        kind, text = case["kind"], case["text"]
        changed = squash(text) != squash(case["origin"])
        try:
            got = parse(kind, text)
        except refparse.ExtractError as e:
            raise Violation("%s %r is accepted with an unexpected tree shape: %s" % (kind, text, e), sig="shape:" + kind, details=case)
        except Exception:
            return {"nontrivial": changed, "classes": ["kind=" + kind, "rejected", "mode=" + case["mode"]]}
        if not lossless(kind, text, got):
            raise Violation("%s %r is accepted but parsed as %r (canonical %r): part of the text was dropped or changed"
                            % (kind, text, got, canon(kind, got)), sig="lossy:" + kind, details=case)
        return {"nontrivial": changed, "classes": ["kind=" + kind, "accepted", "mode=" + case["mode"]]}


class Fuzz(Part):
    """
    Coverage-guided fuzzing (atheris on libFuzzer) of the same five parsers with the same losslessness oracle: two
    campaigns per run, one from an empty corpus and one seeded with a few valid renderings plus a token dictionary.
    """
    name = "fuzz"
    rule = ("atheris/libFuzzer campaigns over vf/fuzz_c17.py (first byte selects the grammar, the rest is the text; the parser must "
            "raise or the accepted text must be lossless): one from an empty corpus, one from a seed corpus of valid renderings with "
            "a token dictionary. Evaluations = executions reported by libFuzzer; non-trivial = distinct final-corpus inputs (coverage-"
            "distinct by construction) that the parser ACCEPTS, re-parsed and re-checked here. Thorough tier only (the instrumented "
            "target needs 30-60 s to start).")

    SEEDS = ["Z[m, n] = A[k, m] * B[k, n]", "Z[] = take(A[k], b, 1) + C[-2 * k + m]", "uniform_occupancy(A.16)", "nway_shape(N0)",
             "flatten()", "follow(Q)", "(M, K0)", "K", "K1.coord", "M.pos", "PE[0..15]", "System"]
    TOKENS = ["take(", "uniform_shape(", "uniform_occupancy(", "nway_shape(", "flatten(", "follow(", "[0..", ".pos", ".coord",
              " * ", " + ", ", ", "] = ", "[]", "-1 * "]

    def budget(self, tier):
        return {"quick": dict(examples=15000, shards=1, seconds=100), "thorough": dict(examples=600000, shards=1, seconds=900)}[tier]

    def strategy(self, tier):
        return st.just(None)

    def describe(self, case):
        return case

    def run_case(self, case):
        # replay of a fuzz-found input goes through the near-miss oracle
        return NearMiss().run_case(case)

    def custom_search(self, tier, seed, res, deadline, seen_sigs):
        import shutil
        import subprocess
        import sys
        import tempfile
        from ..runner import VERIF
        if getattr(self, "_done", False) or tier == "quick":
            # (start-up of the instrumented target takes 30-60 s: the campaigns belong to the thorough tier)
            return None
        self._done = True
        sys.path.insert(0, VERIF)
        runs = self.budget(tier)["examples"]
        work = tempfile.mkdtemp(prefix="vf-fuzz-", dir="/dev/shm" if os.path.isdir("/dev/shm") else None)
        found = None
        try:
            for campaign in ("empty", "seeded"):
                corpus = os.path.join(work, campaign)
                art = os.path.join(work, campaign + "-artifacts")
                os.makedirs(corpus)
                os.makedirs(art)
                args = [sys.executable, "-m", "vf.fuzz_c17", "-runs=%d" % (runs // 2), "-seed=%d" % (seed % 2147483647 or 1),
                        "-max_len=64", "-artifact_prefix=" + art + "/", "-print_final_stats=1"]
                if campaign == "seeded":
                    for i, text in enumerate(self.SEEDS):
                        kind = ["einsum", "einsum", "directive", "directive", "directive", "directive", "rank-tuple", "rank-tuple",
                                "stamp", "stamp", "level", "level"][i]
                        with open(os.path.join(corpus, "seed%02d" % i), "wb") as f:
                            f.write(bytes([["einsum", "directive", "rank-tuple", "stamp", "level"].index(kind)]) + text.encode())
                    dpath = os.path.join(work, "dict.txt")
                    with open(dpath, "w") as f:
                        for t in self.TOKENS:
                            f.write('"%s"\n' % t.replace("\\", "\\\\").replace('"', '\\"'))
                    args.append("-dict=" + dpath)
                args.append(corpus)
                env = dict(os.environ, PYTHONHASHSEED="0", PYTHONDONTWRITEBYTECODE="1")
                try:
                    p = subprocess.run(args, cwd=VERIF, env=env, capture_output=True, text=True,
                                       timeout=max(120, self.budget(tier)["seconds"]))
                    out = p.stderr + p.stdout
                except subprocess.TimeoutExpired as e:
                    out = (e.stderr or b"").decode("latin-1") if isinstance(e.stderr, bytes) else (e.stderr or "")
                    res.budget_hit = True
                import re
                if "No module named 'atheris'" in out or "ModuleNotFoundError" in out:
                    res.classes["fuzz-unavailable"] += 1
                    break
                m = re.findall(r"stat::number_of_executed_units:\s*(\d+)", out) or re.findall(r"Done (\d+) runs", out)
                res.evaluations += int(m[-1]) if m else 0
                res.classes["fuzz-campaign=" + campaign] += 1
                cov = re.findall(r"cov: (\d+)", out)
                if cov:
                    res.classes["fuzz-cov-%s=%s" % (campaign, cov[-1])] += 1
                # crash artifacts = oracle failures
                from .. import fuzz_decode
                for fn in sorted(os.listdir(art)):
                    with open(os.path.join(art, fn), "rb") as f:
                        kind, text = fuzz_decode.decode(f.read())
                    if kind is None:
                        continue
                    case = {"kind": kind, "text": text, "origin": "", "mode": "fuzz:" + campaign}
                    try:
                        NearMiss().run_case(case)
                    except Violation as v:
                        if v.sig not in seen_sigs and found is None:
                            v.case, v.part = case, "near-miss"
                            found = v
                # accepted corpus entries: distinct, non-trivial; re-checked with the oracle here
                for fn in sorted(os.listdir(corpus)):
                    with open(os.path.join(corpus, fn), "rb") as f:
                        kind, text = fuzz_decode.decode(f.read())
                    if kind is None or "\n" in text:
                        continue
                    case = {"kind": kind, "text": text, "origin": "", "mode": "fuzz:" + campaign}
                    try:
                        info = NearMiss().run_case(case)
                    except Violation as v:
                        if v.sig not in seen_sigs and found is None:
                            v.case, v.part = case, "near-miss"
                            found = v
                        continue
                    if "accepted" in info["classes"]:
                        from .. import spec as S_
                        h = S_.sha(case)
                        if h not in res.nontrivial:
                            res.nontrivial.add(h)
                            res.classes["fuzz-accepted-kind=" + kind] += 1
                            if len(res.samples) < 3:
                                res.samples.append(case)
        finally:
            shutil.rmtree(work, ignore_errors=True)
        return found


PARTS = [RoundTrip(), NearMiss(), Fuzz()]
