"""
C13 - fusion blocks are a legal, ordered partition of the Einsums.
"""
import ast
import copy

from hypothesis import strategies as st

from .. import spec as S
from .. import gen, gen_metrics, oracle
from .. import execute as X
from ..runner import Part, Violation, Skip

LEVEL = "exploration"
ASSUMPTIONS = [
    "histories are sequences of 1-6 element-wise product Einsums over ranks K, M, N with per-Einsum configuration (two "
    "architecture configurations), loop order, space/time split and bindings to a pool of functional components (3 compute units, "
    "2 intersectors, 1 sequencer per configuration) and a DRAM (non-functional)",
    "the temporal prefix is recomputed from the specification: the loop ranks ahead of the first loop rank that is listed under "
    "space (space ranks are listed in loop order, as in every shipped specification)",
    "only necessary conditions are demanded (maximal fusion is not)",
]
EXCLUDED = {}

RANKS = ["K", "M", "N"]
CONFIGS = ["cfgA", "cfgB"]


def comp_pool(cfg):
    s = cfg[-1]
    return {"compute": ["Mul0" + s, "Mul1" + s, "Add0" + s], "isect": ["IsectX" + s, "IsectY" + s], "seq": ["Seq" + s],
            "mem": "Mem" + s}


@st.composite
def histories(draw, max_len=6):
    n = draw(st.integers(1, max_len))
    p = gen.plain
    idx = [p(r.lower()) for r in RANKS]
    decl, exprs = [], []
    # names in an order that is NOT alphabetical: program order is what counts
    names = list(draw(st.permutations(["Z", "Y", "X", "T", "S", "U", "R"])))[:n]
    decl.append(["A", list(RANKS)])
    prev = "A"
    steps = []
    loop_order, spacetime, bindings = {}, {}, {}
    for i, out in enumerate(names):
        other = "B%d" % i
        decl.append([other, list(RANKS)])
        decl.append([out, list(RANKS)])
        exprs.append({"out": [out, copy.deepcopy(idx)], "terms": [{"take": None, "factors": [
            {"t": prev, "idx": copy.deepcopy(idx)}, {"t": other, "idx": copy.deepcopy(idx)}]}]})
        prev = out
        # mostly repeat the previous Einsum's schedule so that the component condition is the deciding one
        if steps and draw(st.integers(0, 2)) > 0:
            lo, nspace, cfg = list(steps[-1]["lo"]), steps[-1]["nspace"], steps[-1]["cfg"]
            if draw(st.integers(0, 3)) == 0:
                cfg = draw(st.sampled_from(CONFIGS))
            if draw(st.integers(0, 3)) == 0:
                nspace = draw(st.integers(0, 3))
        else:
            lo = list(draw(st.permutations(RANKS)))
            nspace = draw(st.integers(0, 3))
            cfg = draw(st.sampled_from(CONFIGS))
        space = lo[len(lo) - nspace:] if nspace else []
        time = [r for r in lo if r not in space]
        if steps and nspace == 0 and steps[-1]["nspace"] == 0 and draw(st.integers(0, 2)) == 0:
            # same time-stamp list as the previous Einsum but another loop order (the prefix is defined by the loop order)
            lo = list(draw(st.permutations(RANKS)))
            time = list(steps[-1]["time"])
        elif draw(st.integers(0, 2)) == 0:
            time = list(draw(st.permutations(time)))      # time stamps may be listed in any order: only loop order counts
        loop_order[out] = lo
        spacetime[out] = {"space": space, "time": time}
        pool = comp_pool(cfg)
        entry = [{"config": cfg, "prefix": "tmp/" + out}]
        used = []
        for c in pool["compute"]:
            k = draw(st.integers(0, 11))
            if k <= 3:
                entry.append({"component": c, "bindings": [{"op": "mul" if c.startswith("Mul") else "add"}]})
                used.append(c)
            elif k == 4:
                # bound with an empty list: does not count (the full compile cannot handle it, the Fusion API can)
                entry.append({"component": c, "bindings": []})
        free = list(lo)
        for c in pool["isect"]:
            if free and draw(st.integers(0, 4)) == 0:
                r = draw(st.sampled_from(free))
                free.remove(r)          # two intersectors on one rank are not implemented by the compiler
                entry.append({"component": c, "bindings": [{"rank": r}]})
                used.append(c)
        if draw(st.integers(0, 4)) == 0:
            entry.append({"component": pool["seq"][0], "bindings": [{"rank": r} for r in draw(gen.subset(lo, min_size=1))]})
            used.append(pool["seq"][0])
        if draw(st.booleans()):
            entry.append({"component": pool["mem"], "bindings": [
                {"tensor": other, "rank": lo[-1], "type": "payload", "format": "default"}]})
        bindings[out] = entry
        steps.append({"out": out, "cfg": cfg, "lo": lo, "nspace": nspace, "space": space, "time": time, "functional": used})
    arch = {}
    for cfg in CONFIGS:
        pool = comp_pool(cfg)
        local = [{"name": pool["mem"], "class": "DRAM", "attributes": {"bandwidth": 128}}]
        for c in pool["compute"]:
            local.append({"name": c, "class": "Compute", "attributes": {"type": "mul" if c.startswith("Mul") else "add"}})
        for c in pool["isect"]:
            local.append({"name": c, "class": "Intersector", "attributes": {"type": "two-finger"}})
        local.append({"name": pool["seq"][0], "class": "Sequencer", "attributes": {"num_ranks": 3}})
        arch[cfg] = [{"name": "System" + cfg[-1], "attributes": {"clock_frequency": 1000}, "local": local}]
    spec = {"decl": decl, "exprs": exprs, "rank_order": {}, "loop_order": loop_order, "partitioning": {}, "spacetime": spacetime,
            "extra": {"architecture": arch, "bindings": bindings}}
    # formats: loop-concordant rank order of every tensor in the (last) Einsum that uses it; one format per needed order
    fmt = {}
    for i, stp in enumerate(steps):
        for t in S.expr_tensors(exprs[i]) + [stp["out"]]:
            order = [r for r in stp["lo"]]
            fmt.setdefault(t, {})
            if not any(f["rank-order"] == order for f in fmt[t].values()):
                name = "default" if not fmt[t] else "layout%d" % len(fmt[t])
                f = {"rank-order": order}
                for r in order:
                    f[r] = {"format": "C", "pbits": 32}
                fmt[t][name] = f
    spec["extra"]["format"] = fmt
    return {"spec": spec, "steps": steps}


def legal(blocks, steps_so_far):
    """returns None if `blocks` is a legal ordered partition of the Einsums added so far, else a message"""
    flat = [e for b in blocks for e in b]
    want = [s_["out"] for s_ in steps_so_far]
    if flat != want:
        return "partition", "blocks %r do not list the Einsums added so far %r exactly once, in program order" % (blocks, want)
    info = {s_["out"]: s_ for s_ in steps_so_far}
    for b in blocks:
        if not b:
            return "empty-block", "empty block in %r" % (blocks,)
        for e in b[1:]:
            a = info[b[0]]
            x = info[e]
            if a["cfg"] != x["cfg"]:
                return "config", "%s (config %s) and %s (config %s) share a block" % (b[0], a["cfg"], e, x["cfg"])
            pa, px = prefix(a), prefix(x)
            if pa != px:
                return "prefix", "%s (temporal prefix %r) and %s (temporal prefix %r) share a block" % (b[0], pa, e, px)
        seen = {}
        for e in b:
            for c in info[e]["functional"]:
                if c in seen:
                    return "component", "functional component %s is bound in both %s and %s of block %r" % (c, seen[c], e, b)
                seen[c] = e
    return None


def prefix(step):
    lo = step["lo"]
    for i, r in enumerate(lo):
        if r in step["space"]:
            return lo[:i]
    return list(lo)


class Main(Part):
    name = "main"
    rule = ("Hypothesis draws a history of 1-6 Einsums (configuration A/B, loop order, space/time split, bindings to a pool of "
            "functional components, some bound with an empty list; schedules are mostly repeated so that the component condition "
            "decides). Real Program.add_einsum(i) / Fusion.add_einsum(program) are applied step by step and after EVERY step "
            "Fusion.get_blocks() must be a legal ordered partition: concatenation = Einsums so far in order; one configuration, "
            "one temporal prefix and no functional component with a non-empty binding list twice per block. The same predicate is "
            "applied to the metrics[\"blocks\"] literal of the emitted dump. Non-trivial = >= 3 Einsums, >= 2 adjacent ones with equal "
            "configuration and prefix.")

    def budget(self, tier):
        return {"quick": dict(examples=250, shards=6, seconds=80),
                "thorough": dict(examples=3000, shards=16, seconds=600)}[tier]

    def strategy(self, tier):
        return histories()

    def describe(self, case):
        return {"steps": case["steps"], "yaml": S.to_yaml(case["spec"])}

    def run_case(self, case):
        from teaal.parse import Einsum, Mapping, Architecture, Bindings, Format
        from teaal.ir.program import Program
        from teaal.ir.hardware import Hardware
        from teaal.ir.fusion import Fusion
        spec, steps = case["spec"], case["steps"]
        y = S.to_yaml(spec)
        det = {"yaml": y, "steps": steps}
        try:
            program = Program(Einsum.from_str(y), Mapping.from_str(y))
            hardware = Hardware(Architecture.from_str(y), Bindings.from_str(y), program)
            fusion = Fusion(hardware)
        except ValueError as e:
            raise Skip("rejected_by_compiler", str(e)[:80])
        for i in range(len(steps)):
            try:
                program.add_einsum(i)
                fusion.add_einsum(program)
            except ValueError as e:
                raise Skip("rejected_by_compiler", str(e)[:80])
            blocks = [list(b) for b in fusion.get_blocks()]
            bad = legal(blocks, steps[:i + 1])
            if bad:
                raise Violation("after adding Einsum %d (%s): %s" % (i, steps[i]["out"], bad[1]), sig="fusion:" + bad[0], details=det)
            program.reset()
        # the literal in the emitted dump
        emitted = None
        try:
            hf = X.compile_text(y, metrics=True)
            emitted = blocks_literal(str(hf))
        except X.Rejected:
            pass
        except Exception:
            pass
        if emitted is not None:
            bad = legal(emitted, steps)
            if bad:
                raise Violation("metrics[\"blocks\"] literal of the emitted dump: %s" % bad[1], sig="dump:" + bad[0], details=det)
        adjacent_equal = any(steps[i]["cfg"] == steps[i + 1]["cfg"] and prefix(steps[i]) == prefix(steps[i + 1])
                             for i in range(len(steps) - 1))
        shared = any(set(steps[i]["functional"]) & set(steps[j]["functional"])
                     for i in range(len(steps)) for j in range(i + 1, len(steps)))
        cl = ["einsums=%d" % len(steps), "dump-checked" if emitted is not None else "dump-unavailable"]
        if shared:
            cl.append("component-shared-somewhere")
        nblocks = len(fusion.get_blocks())
        cl.append("blocks<einsums" if nblocks < len(steps) else "no-fusion")
        return {"nontrivial": len(steps) >= 3 and adjacent_equal, "classes": cl}


def blocks_literal(text):
    tree = ast.parse(text)
    found = None
    for node in ast.walk(tree):
        if isinstance(node, ast.Assign) and isinstance(node.targets[0], ast.Subscript):
            t = node.targets[0]
            if isinstance(t.value, ast.Name) and t.value.id == "metrics" and isinstance(t.slice, ast.Constant) and t.slice.value == "blocks":
                found = ast.literal_eval(node.value)
    return found


PARTS = [Main()]
