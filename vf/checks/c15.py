"""
C15 - compilation does not mutate its inputs and is repeatable (histories; Hypothesis rule-based state machine).
"""
import copy
import glob
import json
import os
import subprocess
import sys
import time

import hypothesis
from hypothesis import settings, strategies as st, HealthCheck, Phase, Verbosity
from hypothesis.stateful import RuleBasedStateMachine, rule, initialize, invariant, precondition, run_state_machine_as_test

from .. import spec as S
from .. import gen, gen_metrics
from .. import execute as X
from ..runner import Part, Violation, Skip, VERIF

LEVEL = "exploration"
ASSUMPTIONS = [
    "a parsed object is 'observably equal' when the deep copy of vars(obj) taken right after parsing equals vars(obj) later "
    "(lark trees and dictionaries compare by value)",
    "the reference text of a specification is what a forked child of a process that has imported the compiler but never compiled "
    "anything emits (same PYTHONHASHSEED), i.e. the text of a first compilation in a fresh interpreter",
    "specifications the compiler refuses on their FIRST compilation are dropped from the pool",
]
EXCLUDED = {}


class Fresh:
    """client of vf.freshserver"""

    def __init__(self):
        env = dict(os.environ, PYTHONHASHSEED="0", PYTHONDONTWRITEBYTECODE="1")
        self.p = subprocess.Popen([sys.executable, "-m", "vf.freshserver"], cwd=VERIF, env=env, stdin=subprocess.PIPE,
                                  stdout=subprocess.PIPE, text=True, bufsize=1)

    def compile(self, yaml_text, metrics):
        self.p.stdin.write(json.dumps({"yaml": yaml_text, "metrics": metrics}) + "\n")
        self.p.stdin.flush()
        line = self.p.stdout.readline()
        if not line:
            raise RuntimeError("fresh-compile server died")
        return json.loads(line)

    def close(self):
        try:
            self.p.stdin.close()
            self.p.wait(timeout=5)
        except Exception:
            self.p.kill()


def parse_all(y, metrics):
    from teaal.parse import Einsum, Mapping, Architecture, Bindings, Format
    objs = [Einsum.from_str(y), Mapping.from_str(y)]
    if metrics:
        objs += [Architecture.from_str(y), Bindings.from_str(y), Format.from_str(y)]
    return objs


NAMES = ["Einsum", "Mapping", "Architecture", "Bindings", "Format"]


def first_difference(a, b, path=""):
    if type(a) is not type(b):
        return "%s: %s (%s) -> %s (%s)" % (path, _s(a), type(a).__name__, _s(b), type(b).__name__)
    if isinstance(a, dict):
        for k in a:
            if k not in b:
                return "%s[%r] removed" % (path, k)
        for k in b:
            if k not in a:
                return "%s[%r] added = %s" % (path, k, _s(b[k]))
        for k in a:
            if a[k] != b[k]:
                return first_difference(a[k], b[k], "%s[%r]" % (path, k))
        return None
    if isinstance(a, (list, tuple)):
        if len(a) != len(b):
            return "%s: length %d -> %d (%s)" % (path, len(a), len(b), _s(b[len(a):] if len(b) > len(a) else a[len(b):]))
        for i, (x, y) in enumerate(zip(a, b)):
            if x != y:
                return first_difference(x, y, "%s[%d]" % (path, i))
        return None
    return None if a == b else "%s: %s -> %s" % (path, _s(a), _s(b))


def _s(x):
    s = repr(x)
    return s if len(s) < 120 else s[:117] + "..."


class Interp:
    """executes a history of operations against the real compiler, checking the invariants after every step"""

    def __init__(self, pool, fresh):
        self.pool = pool                 # list of {"yaml":..., "metrics": bool}
        self.fresh = fresh
        self.objs = {}                   # i -> parsed objects
        self.snap = {}                   # i -> deep copies of vars()
        self.first_text = {}             # i -> text of the first compilation from the current objects
        self.ref = {}                    # i -> fresh-process text (or None if refused)
        self.ops = []
        self.stats = {"recompiled_after_other": 0, "with_bindings": 0, "compiles": 0}
        self.last_compiled = None
        self.compiled_count = {}

    def det(self):
        return {"pool": self.pool, "ops": self.ops}

    def reference(self, i):
        if i not in self.ref:
            r = self.fresh.compile(self.pool[i]["yaml"], self.pool[i]["metrics"])
            self.ref[i] = r["text"] if r["ok"] else None
            self.ref_err = r.get("error")
        return self.ref[i]

    def usable(self, i):
        return self.reference(i) is not None

    def parse(self, i):
        self.ops.append(["parse", i])
        from hypothesis import assume
        self.objs[i] = parse_all(self.pool[i]["yaml"], self.pool[i]["metrics"])
        self.snap[i] = [copy.deepcopy(vars(o)) for o in self.objs[i]]
        self.first_text.pop(i, None)
        self.compiled_count[i] = 0

    def compile(self, i):
        self.ops.append(["compile", i])
        from teaal.trans.hifiber import HiFiber
        try:
            text = str(HiFiber(*self.objs[i]))
        except Exception as e:
            n = self.compiled_count[i]
            raise Violation("compilation number %d of specification %d from the same parsed objects fails (%s: %s) although a first "
                            "compilation in a fresh interpreter succeeds" % (n + 1, i, type(e).__name__, str(e)[:150]),
                            sig="recompile-fails:%s" % type(e).__name__, details=self.det())
        self._record(i, text, "compiled from existing objects")
        self.compiled_count[i] += 1

    def compile_fresh(self, i):
        self.ops.append(["compile_fresh", i])
        from teaal.trans.hifiber import HiFiber
        try:
            text = str(HiFiber(*parse_all(self.pool[i]["yaml"], self.pool[i]["metrics"])))
        except Exception as e:
            raise Violation("specification %d, parsed anew, fails to compile after earlier compilations in this process (%s: %s) although "
                            "it compiles in a fresh interpreter" % (i, type(e).__name__, str(e)[:150]),
                            sig="fresh-parse-fails:%s" % type(e).__name__, details=self.det())
        self._record(i, text, "parsed anew and compiled", existing=False)

    def _record(self, i, text, how, existing=True):
        self.stats["compiles"] += 1
        if self.pool[i]["metrics"]:
            self.stats["with_bindings"] += 1
        if existing:
            if i in self.first_text:
                if self.last_compiled is not None and self.last_compiled != i:
                    self.stats["recompiled_after_other"] += 1
                    if self.pool[i]["metrics"]:
                        self.stats["recompiled_after_other_with_bindings"] = self.stats.get("recompiled_after_other_with_bindings", 0) + 1
                if text != self.first_text[i]:
                    raise Violation("specification %d %s gives a different text than its first compilation from the same objects (%s)"
                                    % (i, how, _diff(self.first_text[i], text)), sig="text-changes", details=self.det())
            else:
                self.first_text[i] = text
        ref = self.reference(i)
        if text != ref:
            raise Violation("specification %d %s after the history %r gives a different text than a first compilation in a fresh "
                            "interpreter (%s)" % (i, how, self.ops[:-1][-6:], _diff(ref, text)), sig="history-dependent", details=self.det())
        self.last_compiled = i

    def check_inputs(self):
        for i, objs in self.objs.items():
            for name, o, snap in zip(NAMES, objs, self.snap[i]):
                now = vars(o)
                if now != snap:
                    raise Violation("the parsed %s object of specification %d was modified by compilation: %s"
                                    % (name, i, first_difference(snap, now, name)), sig="input-mutated:" + name, details=self.det())


def _diff(a, b):
    la, lb = a.split("\n"), b.split("\n")
    k = next((i for i in range(min(len(la), len(lb))) if la[i] != lb[i]), min(len(la), len(lb)))
    return "line %d: %r vs %r" % (k + 1, la[k] if k < len(la) else None, lb[k] if k < len(lb) else None)


SHIPPED = ["extensor.yaml", "sigma.yaml", "gamma.yaml", "outerspace.yaml", "extensor-energy.yaml", "test_input.yaml"]


@st.composite
def pool_entry(draw):
    kind = draw(st.sampled_from(["plain", "shape", "flat", "gemm-variant", "gemm-fixed", "gemm-fixed", "gemm-fixed", "metrics", "metrics", "metrics", "shipped", "shipped"]))
    if kind == "shipped":
        name = draw(st.sampled_from(SHIPPED))
        with open(os.path.join(X.REPO, "tests/integration", name)) as f:
            return {"yaml": f.read(), "metrics": True, "kind": "shipped:" + name}
    if kind == "metrics":
        c = draw(gen_metrics.case_metrics(n_min=1, n_max=2, with_inputs=False))
        return {"yaml": S.to_yaml(c["spec"]), "metrics": not c.get("mapping_rejected"), "kind": kind}
    if kind == "gemm-fixed":
        # the same GEMM with drawn flatten / split structure: MK0 is a level of the flattened rank MK in one variant and the
        # flattening of (M, K0) in another
        pl = gen.plain
        sp = {"decl": [["A", ["K", "M"]], ["B", ["K", "N"]], ["Z", ["M", "N"]]],
              "exprs": [{"out": ["Z", [pl("m"), pl("n")]], "terms": [{"take": None, "factors": [
                  {"t": "A", "idx": [pl("k"), pl("m")]}, {"t": "B", "idx": [pl("k"), pl("n")]}]}]}],
              "rank_order": {}, "loop_order": {}, "partitioning": {}, "spacetime": {}, "extra": {}}
        pair = list(draw(st.permutations(["M", "K"])))
        parts, names, pre = [], [], []
        for r in pair:
            if draw(st.booleans()):
                parts.append([r, ["uniform_shape(%d)" % draw(st.integers(2, 4))]])
                names.append(r + "0")
                pre.append(r + "1")
            else:
                names.append(r)
        flat = "".join(names)
        parts.append(["(" + ", ".join(names) + ")", ["flatten()"]])
        levels = [flat]
        if draw(st.integers(0, 2)) > 0:
            nocc = draw(st.sampled_from([1, 1, 2]))
            parts.append([flat, ["uniform_occupancy(A.%d)" % draw(st.integers(1, 4)) for _ in range(nocc)]])
            levels = gen.levels_of(flat, nocc)
        if draw(st.booleans()):
            parts.append(["N", []])          # an explicitly empty partitioning entry is legal
        sp["partitioning"] = {"Z": parts}
        sp["loop_order"] = {"Z": draw(gen.interleave([pre + levels, ["N"]]))}
        return {"yaml": S.to_yaml(sp), "metrics": False, "kind": kind}
    if kind == "gemm-variant":
        # specifications over one small rank alphabet, so that partition-level names (MK0, K1...) collide between
        # specifications with different ancestry
        sp = draw(gen.case_flat(max_extent=3, ranks="KMN", max_vars=3))["spec"] if draw(st.booleans()) else \
            draw(gen.case_occ(max_extent=3, ranks="KMN", max_vars=3))["spec"]
        return {"yaml": S.to_yaml(sp), "metrics": False, "kind": kind}
    if kind == "plain":
        sp = draw(gen.spec_plain())
    elif kind == "shape":
        sp = draw(gen.case_shape(max_extent=3))["spec"]
        unp = [v.upper() for v in S.expr_vars(sp["exprs"][0]) if v.upper() not in [k for k, _ in sp["partitioning"].get("Z", [])]]
        if unp and draw(st.booleans()):
            sp["partitioning"].setdefault("Z", []).append([draw(st.sampled_from(unp)), []])
    else:
        sp = draw(gen.case_flat(max_extent=3))["spec"]
    return {"yaml": S.to_yaml(sp), "metrics": False, "kind": kind}


class Main(Part):
    name = "main"
    rule = ("Hypothesis rule-based state machine over a drawn pool of 3-5 specifications (plain, shape-partitioned, flattened, "
            "constructed metrics specifications incl. eager buffets and occupancy levels, shipped accelerator YAMLs); rules: parse(i) "
            "(create the parsed objects and snapshot them), compile(i) (HiFiber from the EXISTING objects), compile_fresh(i) (parse "
            "anew and compile). After every step: vars() of every parsed object equals its snapshot; every compilation succeeded, "
            "equals the first compilation from the same objects and equals the text a fresh interpreter emits for that specification. "
            "Non-trivial = a specification was compiled >= 2 times from the same objects with another specification compiled in "
            "between (histories where that specification has bindings are counted as a class). One evaluation = one history.")

    def budget(self, tier):
        return {"quick": dict(examples=35, shards=6, seconds=70, steps=16),
                "thorough": dict(examples=400, shards=16, seconds=600, steps=25)}[tier]

    def strategy(self, tier):
        return st.just(None)

    def describe(self, case):
        return {"pool_kinds": [p.get("kind") for p in case["pool"]], "ops": case["ops"]}

    def setup_shard(self, tier, seed, shard):
        self.fresh = Fresh()

    def teardown_shard(self):
        if getattr(self, "fresh", None):
            self.fresh.close()
            self.fresh = None

    # ---- replay of a recorded history (no Hypothesis)
    def run_case(self, case):
        it = Interp(case["pool"], self.fresh)
        for op, i in case["ops"]:
            if not it.usable(i):
                continue
            if op != "parse" and i not in it.objs:
                it.parse(i)
            getattr(it, op)(i)
            it.check_inputs()
        return {"nontrivial": it.stats["recompiled_after_other"] > 0, "classes": []}

    # ---- the search itself: Hypothesis' stateful engine
    def custom_search(self, tier, seed, res, deadline, seen_sigs):
        part = self
        budget = self.budget(tier)
        last = {}
        failed = {}                     # sha(pool, ops at failure) -> Violation: known failing histories always fail again
        first_fail = [None]
        failed_pools = set()
        shrink_s = 20 if tier == "quick" else 60

        class Machine(RuleBasedStateMachine):
            @initialize(pool=st.lists(pool_entry(), min_size=3, max_size=5))
            def init(self, pool):
                self.it = Interp(pool, part.fresh)
                pkey = S.sha(pool)
                over = first_fail[0] is not None and time.time() - first_fail[0] > shrink_s
                # (which rules are enabled and what they draw never depends on the clock or on compilation results)
                self.usable = list(range(len(pool)))
                if over and pkey not in failed_pools:
                    # shrink window over: every new candidate passes at once (known failing pools still run in full)
                    self.dead = True
                    return
                # past the time budget new histories become no-ops (only while nothing has failed: a failing history
                # must fail again when Hypothesis replays it)
                self.dead = time.time() > deadline and not failed and res.evaluations >= 30
                if self.dead:
                    res.budget_hit = True

            @rule()
            def idle(self):
                pass                 # always enabled, so that a pool without usable specification is not an error

            def pick(self, data):
                return data.draw(st.sampled_from(self.usable))

            @precondition(lambda self: self.usable)
            @rule(data=st.data())
            def parse(self, data):
                i = self.pick(data)
                if self.dead or not self.it.usable(i):
                    return
                self.it.parse(i)

            @precondition(lambda self: self.usable)
            @rule(data=st.data())
            def compile(self, data):
                i = self.pick(data)
                if self.dead or not self.it.usable(i):
                    return
                if i not in self.it.objs:
                    self.it.parse(i)
                self.step(lambda: self.it.compile(i))

            @precondition(lambda self: self.usable)
            @rule(data=st.data())
            def compile_next(self, data):
                """compile (from existing objects, parsing only if needed) a specification other than the last one compiled"""
                i = self.pick(data)
                if self.dead:
                    return
                n = len(self.it.pool)
                for k in range(n):
                    j = (i + k) % n
                    if j != self.it.last_compiled and self.it.usable(j):
                        if j not in self.it.objs:
                            self.it.parse(j)
                        self.step(lambda: self.it.compile(j))
                        return

            @precondition(lambda self: self.usable)
            @rule(data=st.data())
            def recompile(self, data):
                """compile again a specification that was already compiled from its current objects (if any)"""
                i = self.pick(data)
                if self.dead or not self.it.usable(i):
                    return
                done = sorted(j for j in self.it.first_text if j in self.it.objs)
                others = [j for j in done if j != self.it.last_compiled and self.it.pool[j]["metrics"]]
                if others:
                    i = others[i % len(others)]
                elif done:
                    i = done[i % len(done)]
                elif i not in self.it.objs:
                    self.it.parse(i)
                self.step(lambda: self.it.compile(i))

            @precondition(lambda self: self.usable)
            @rule(data=st.data())
            def compile_fresh(self, data):
                i = self.pick(data)
                if self.dead or not self.it.usable(i):
                    return
                self.step(lambda: self.it.compile_fresh(i))

            def step(self, f):
                err = None
                try:
                    f()
                except Violation as v:
                    err = v
                if err is not None:
                    self.fail(err)          # outside the except block: no exception context is attached

            def fail(self, v):
                if v.sig in seen_sigs:
                    res.duplicates += 1
                    self.dead = True
                    return
                case = {"pool": self.it.pool, "ops": list(self.it.ops)}
                key = S.sha(case)
                if key not in failed:
                    now = time.time()
                    if first_fail[0] is not None and now - first_fail[0] > shrink_s:
                        # bounded shrinking: new candidates pass, Hypothesis settles on the smallest failure found so far
                        self.dead = True
                        return
                    if first_fail[0] is None:
                        first_fail[0] = now
                    v.case = case
                    v.part = part.name
                    failed[key] = v
                    failed_pools.add(S.sha(self.it.pool))
                last["v"] = failed[key]
                f0 = failed[key]
                fresh_exc = Violation(f0.msg, f0.sig, f0.details)     # a fresh object every time: same origin for Hypothesis
                fresh_exc.case, fresh_exc.part = f0.case, f0.part
                raise fresh_exc

            @invariant()
            def inputs_unchanged(self):
                if getattr(self, "it", None) is None or self.dead:
                    return
                self.step(self.it.check_inputs)

            def teardown(self):
                it = getattr(self, "it", None)
                if it is None or "v" in last and last["v"].case and last["v"].case["ops"] == it.ops:
                    return
                res.evaluations += 1
                case = {"pool": it.pool, "ops": list(it.ops)}
                h = S.sha(case)
                for p in it.pool:
                    res.classes["pool:" + p["kind"].split(":")[0]] += 1
                res.classes["ops=%d" % (len(it.ops) // 4 * 4)] += 1
                if it.stats.get("recompiled_after_other_with_bindings"):
                    res.classes["recompiled-after-other-with-bindings"] += 1
                if it.stats["recompiled_after_other"] > 0:
                    if h not in res.nontrivial:
                        res.nontrivial.add(h)
                        if len(res.samples) < 3:
                            res.samples.append(part.describe(case))

        Machine.TestCase.settings = settings(
            max_examples=budget["examples"], stateful_step_count=budget["steps"], database=None, deadline=None,
            report_multiple_bugs=False, print_blob=False, verbosity=Verbosity.quiet, phases=[Phase.generate, Phase.shrink],
            suppress_health_check=list(HealthCheck))
        try:
            run_state_machine_as_test(hypothesis.seed(seed)(Machine), settings=Machine.TestCase.settings)
        except Violation as v:
            v = last.get("v", v)
            return v
        return None


PARTS = [Main()]
