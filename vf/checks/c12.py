"""
C12 - every trace the metrics dump consumes is produced during collection.
"""
import glob
import os

from hypothesis import strategies as st

from .. import spec as S
from .. import gen_metrics, oracle, metrics_xref
from .. import execute as X
from ..runner import Part, Violation, Skip

LEVEL = "exploration"
ASSUMPTIONS = [
    "static cross-reference over the emitted text (vf/metrics_xref.py): a trace file is <prefix>-<rank>-<type>.csv of a Metrics.trace "
    "registration of the same Einsum section or the third argument of an earlier Traffic.filterTrace",
    "D_metrics is a constructed family plus the shipped accelerator specifications; refused specifications are dropped and counted",
]
EXCLUDED = {}


def xref(text, det):
    try:
        secs = metrics_xref.analyse(text)
    except metrics_xref.XrefError as e:
        raise Violation("metrics cross-reference: %s" % e, sig="xref:" + e.kind, details=det)
    except SyntaxError as e:
        raise Violation("emitted text does not parse: %s" % e, sig="syntax", details=det)
    return secs


def summarise(secs):
    nfiles = sum(len(set(s_.consumed_files)) for s_ in secs)
    kinds = set(k for s_ in secs for k in s_.kinds)
    return nfiles, kinds


class Main(Part):
    name = "main"
    rule = ("Hypothesis draws 1-3 product Einsums with mapping and a constructed architecture/bindings/format (lazy and eager buffets, "
            "caches, each intersector type, sequencers, shape partitioning); the emitted metrics-mode text is cross-referenced per "
            "Einsum section: one beginCollect at top level before the loops, one endCollect after them, registrations before the loops, "
            "every consumed .csv produced by a registration of the same prefix/rank/type or an earlier filter step, every consumeTrace "
            "registered consumable, every queried intersector created in the header and fed, every eager trace fed by a "
            "<fiber>.trace statement. Non-trivial = >= 2 trace files of >= 2 kinds consumed, or an intersector queried.")

    def budget(self, tier):
        return {"quick": dict(examples=300, shards=6, seconds=80),
                "thorough": dict(examples=3000, shards=16, seconds=600)}[tier]

    def strategy(self, tier):
        return gen_metrics.case_metrics(n_min=1, n_max=3, with_inputs=False)

    def describe(self, case):
        return {"yaml": S.to_yaml(case["spec"])}

    def run_case(self, case):
        if case.get("mapping_rejected"):
            raise Skip("rejected_by_compiler", "mapping")
        spec = case["spec"]
        hf = oracle.compile_or_skip(spec, metrics=True, crash_is_violation=False)
        text = str(hf)
        secs = xref(text, {"yaml": S.to_yaml(spec), "text": text})
        if len(secs) != len(spec["exprs"]):
            raise Violation("%d collection sections for %d Einsums" % (len(secs), len(spec["exprs"])), sig="xref:section-count",
                            details={"yaml": S.to_yaml(spec), "text": text})
        nfiles, kinds = summarise(secs)
        cl = ["kind:" + k for k in sorted(kinds)]
        if "eager" in text:
            cl.append("eager")
        return {"nontrivial": (nfiles >= 2 and len(kinds) >= 2) or "intersector" in kinds, "classes": cl}


class Shipped(Part):
    name = "shipped"
    rule = "every shipped YAML that compiles in metrics mode, same cross-reference"

    def budget(self, tier):
        return dict(examples=1, shards=1, seconds=60)

    def strategy(self, tier):
        return st.just({"shipped": "none"})

    def fixed_cases(self, tier):
        return [{"shipped": os.path.basename(p)} for p in sorted(glob.glob(os.path.join(X.REPO, "tests/integration/*.yaml")))]

    def describe(self, case):
        return case

    def run_case(self, case):
        if case["shipped"] == "none":
            raise Skip("placeholder")
        with open(os.path.join(X.REPO, "tests/integration", case["shipped"])) as f:
            y = f.read()
        try:
            hf = X.compile_text(y, metrics=True)
        except Exception as e:
            raise Skip("does-not-compile", type(e).__name__)
        if getattr(hf, "hardware", None) is None:
            raise Skip("no-hardware-sections")
        text = str(hf)
        secs = xref(text, {"shipped": case["shipped"], "text": text})
        nfiles, kinds = summarise(secs)
        return {"nontrivial": nfiles >= 2, "classes": ["shipped"] + ["kind:" + k for k in sorted(kinds)]}


PARTS = [Main(), Shipped()]
