"""
C01 - the generated loop nest computes the Einsum for every loop order and rank order.
"""
import glob
import itertools
import os

from hypothesis import strategies as st

from .. import spec as S
from .. import gen, oracle
from .. import execute as X
from ..runner import Part, Violation, Skip

LEVEL = "exploration"
ASSUMPTIONS = [
    "the reference HiFiber model (vf/hfmodel.py) stands for fibertree (DESIGN.md 3.2)",
    "input values are positive integers, so presence and non-zero value coincide",
    "bounds: <= 4 index variables, <= 3 terms x 3 tensor factors, extents <= 6 (quick) / 9 (thorough)",
]


def multi_term_with_take(case):
    """
    known finding F-C01-1: a take() term inside a sum of several terms whose SELECTED operand is not a tensor carrying
    every rank of the term (a scalar, a rank-0 tensor or a tensor over fewer ranks).  Such an operand is not zeroed by the
    union when another operand of its term is absent, so it is added although the term is absent.
    (take terms whose selected operand carries all ranks are computed correctly and stay in the search.)
    """
    for e in (case.get("spec") or {"exprs": []})["exprs"]:
        if len(e["terms"]) < 2:
            continue
        for t in e["terms"]:
            if t.get("take") is None:
                continue
            ranks = set(v for f in t["factors"] if "t" in f for ie in f["idx"] for v in S.iexpr_vars(ie))
            sel = t["factors"][t["take"]]
            if "v" in sel:
                return True
            if set(v for ie in sel["idx"] for v in S.iexpr_vars(ie)) != ranks:
                return True
    return False


def scalar_shared_with_take_term(case):
    """
    known finding F-C01-2: the same scalar variable occurs in a take() term and in another term: the compiler keys its
    factor bookkeeping by name, so the take term's 'not selected' flag drops the scalar from the other term's product
    (Z[] = take(alpha, A[i], 1) + alpha * B[i] * C[i] emits b_val * c_val) or an IndexError is raised.
    """
    for e in (case.get("spec") or {"exprs": []})["exprs"]:
        seen = {}
        for k, t in enumerate(e["terms"]):
            for v in set(S.term_scalars(t)):
                seen.setdefault(v, []).append(t.get("take") is not None)
        for v, flags in seen.items():
            if len(flags) >= 2 and any(flags):
                return True
    return False


EXCLUDED = {"multi_term_with_take": multi_term_with_take, "scalar_shared_with_take_term": scalar_shared_with_take_term}


def classes_of(spec):
    cl = []
    e = spec["exprs"][0]
    cl.append("terms=%d" % len(e["terms"]))
    if any(t.get("take") is not None for t in e["terms"]):
        cl.append("take")
    if any("v" in f for t in e["terms"] for f in t["factors"]):
        cl.append("scalar-factor")
    if any("t" in f and not f["idx"] for t in e["terms"] for f in t["factors"]):
        cl.append("rank0-input")
    if not e["out"][1]:
        cl.append("rank0-output")
    vs = S.expr_vars(e)
    outv = [ie[0][1] for ie in e["out"][1]]
    termv = set(v for t in e["terms"] for f in t["factors"] if "t" in f for ie in f["idx"] for v in S.iexpr_vars(ie))
    if any(v not in outv for v in vs):
        cl.append("reduction")
    if any(v not in termv for v in outv):
        cl.append("output-only-rank")
    if spec.get("loop_order"):
        dflt = [v.upper() for v in vs]
        cl.append("loop-order=" + ("default-explicit" if list(spec["loop_order"].values())[0] == dflt else "permuted"))
    else:
        cl.append("loop-order=omitted")
    if any(spec["rank_order"].get(n) and spec["rank_order"][n] != rs for n, rs in spec["decl"]):
        cl.append("rank-order=permuted")
    cl.append("vars=%d" % len(vs))
    return cl


class Main(Part):
    name = "main"
    rule = ("Hypothesis draws an Einsum (0-4 index variables, 1-3 terms of 1-3 tensor factors, scalars, take, rank-0, "
            "output-only ranks), a loop-order permutation (or none), rank-order permutations, extents and sparse positive "
            "integer inputs; the emitted program is run on the reference model and every output compared with dense "
            "evaluation. Non-trivial = expected output non-empty AND some extent >= 2 AND (reduction | >=2 terms | take | "
            "permuted loop order | permuted rank order); distinct by SHA-1 of the whole case.")

    def budget(self, tier):
        return {"quick": dict(examples=1200, shards=4, seconds=100),
                "thorough": dict(examples=4000, shards=16, seconds=600)}[tier]

    def strategy(self, tier):
        return gen.case_of(gen.spec_plain(), max_extent=6 if tier == "quick" else 9)

    def run_case(self, case):
        spec = case["spec"]
        hf = oracle.compile_or_skip(spec)
        text = str(hf)
        run = oracle.run_or_violation(text, case)
        exp = oracle.compare_outputs(case, run)
        cl = classes_of(spec)
        interesting = any(c in cl for c in ("reduction", "take", "loop-order=permuted", "rank-order=permuted")) or \
            len(spec["exprs"][0]["terms"]) >= 2
        nontrivial = bool(exp["Z"]) and oracle.loops_with_two_iterations(case) and interesting
        return {"nontrivial": nontrivial, "classes": cl}


class AllLoopOrders(Part):
    """metamorphic: for one Einsum and one input, every loop-order permutation gives the same (dense) result"""
    name = "all-loop-orders"
    rule = ("for a drawn Einsum with <= 4 index variables ALL loop-order permutations (<= 24) are compiled and run on "
            "the same inputs; each must equal dense evaluation (hence each other). Non-trivial = >= 2 permutations, "
            "non-empty expected output, some extent >= 2.")

    def budget(self, tier):
        return {"quick": dict(examples=60, shards=2, seconds=100),
                "thorough": dict(examples=600, shards=16, seconds=600)}[tier]

    def strategy(self, tier):
        return gen.case_of(gen.spec_plain(), max_extent=5 if tier == "quick" else 7)

    def run_case(self, case):
        spec = case["spec"]
        vs = [v.upper() for v in S.expr_vars(spec["exprs"][0])]
        exp = oracle.expected_outputs(case)
        n = 0
        for perm in itertools.permutations(vs):
            s2 = dict(spec, loop_order={"Z": list(perm)})
            c2 = dict(case, spec=s2)
            hf = oracle.compile_or_skip(s2)
            run = oracle.run_or_violation(str(hf), c2)
            oracle.compare_outputs(c2, run, expected=exp, what="program with loop order %s" % (list(perm),))
            n += 1
        return {"nontrivial": n >= 2 and bool(exp["Z"]) and oracle.loops_with_two_iterations(case),
                "classes": ["perms=%d" % n]}


class ModelSelfCheck(Part):
    """
    The 19 pinned golden programs of tests/integration/*.py (text the repository vouches for) run on random inputs
    and compared with dense evaluation of the YAML next to them.  A disagreement points at the model/evaluator,
    not at the compiler: it is a harness error, not a violation.
    """
    name = "golden-model-selfcheck"
    rule = ("pinned golden programs of tests/integration executed on the reference model with drawn inputs vs dense "
            "evaluation of the accompanying YAML (validates the model; failures are harness errors). Non-trivial = non-empty output.")

    def budget(self, tier):
        return {"quick": dict(examples=60, shards=1, seconds=60),
                "thorough": dict(examples=400, shards=2, seconds=600)}[tier]

    def strategy(self, tier):
        names = sorted(os.path.basename(p)[:-3] for p in glob.glob(os.path.join(X.REPO, "tests/integration/*.py"))
                       if not os.path.basename(p).startswith("test_"))

        @st.composite
        def strat(draw):
            name = draw(st.sampled_from(names))
            spec = golden_spec(name)
            rt = draw(gen.runtime(spec, max_extent=5))
            c = {"golden": name, "spec": spec}
            c.update(rt)
            return c
        return strat()

    def run_case(self, case):
        with open(os.path.join(X.REPO, "tests/integration", case["golden"] + ".py")) as f:
            text = f.read()
        try:
            run = oracle.run_or_violation(text, case, what="golden " + case["golden"])
            exp = oracle.compare_outputs(case, run, what="golden " + case["golden"])
        except Violation as v:
            raise AssertionError("reference model disagrees with pinned golden program %s: %s" % (case["golden"], v.msg))
        return {"nontrivial": any(exp.values()), "classes": ["golden=" + case["golden"]]}


def golden_spec(name):
    """build a spec value from a shipped YAML (via ruamel, never via the compiler's parsers)"""
    from ..shipped import load_spec
    return load_spec(os.path.join(X.REPO, "tests/integration", name + ".yaml"))


class ModelLaws(Part):
    """
    Algebraic laws of the reference model itself (the trusted base of every execution check): a failure is a harness
    error, not a violation.
    """
    name = "model-laws"
    rule = ("drawn sparse tensors: swizzleRanks is a permutation of the coordinate map; splitUniform/splitEqual followed by "
            "mergeRanks(absolute) is the identity (without halo); flattenRanks(tuple) then unflattenRanks is the identity; "
            "a & b has exactly the common coordinates; a | b the union; populating an empty tensor from x gives x. "
            "Non-trivial = the tensor has >= 2 elements.")

    def budget(self, tier):
        return {"quick": dict(examples=150, shards=1, seconds=40),
                "thorough": dict(examples=3000, shards=2, seconds=300)}[tier]

    def strategy(self, tier):
        @st.composite
        def strat(draw):
            n = draw(st.integers(1, 3))
            shape = [draw(st.integers(1, 5)) for _ in range(n)]
            a = draw(gen.tensor_data(shape))
            b = draw(gen.tensor_data(shape))
            return {"shape": shape, "a": X.inputs_to_json({"a": a})["a"], "b": X.inputs_to_json({"b": b})["b"],
                    "perm": list(draw(st.permutations(list(range(n))))), "step": draw(st.integers(1, 6)),
                    "depth": draw(st.integers(0, n - 1))}
        return strat()

    def describe(self, case):
        return case

    def run_case(self, case):
        from .. import hfmodel as M
        ids = ["R%d" % i for i in range(len(case["shape"]))]
        a = {tuple(c): v for c, v in case["a"]}
        b = {tuple(c): v for c, v in case["b"]}
        ta, tb = M.Tensor.fromDict(ids, a), M.Tensor.fromDict(ids, b)
        perm = case["perm"]
        sw = ta.swizzleRanks([ids[i] for i in perm])
        assert sw.toDict() == {tuple(k[i] for i in perm): v for k, v in a.items()}, "swizzle"
        assert ta.toDict() == a, "swizzle modified its argument"
        d = case["depth"]
        for split in (ta.splitUniform(case["step"], depth=d), ta.splitEqual(case["step"], depth=d)):
            back = split.mergeRanks(depth=d, levels=1, coord_style="absolute")
            assert back.toDict() == a, "split+merge"
            for cs in split.toDict():
                assert cs[d] <= cs[d + 1], "partition coordinate above its elements"
        if len(ids) >= 2 and d + 1 < len(ids):
            fl = ta.flattenRanks(depth=d, levels=1, coord_style="tuple")
            assert fl.unflattenRanks(depth=d, levels=1).toDict() == a, "flatten+unflatten"
        ra, rb = ta.getRoot(), tb.getRoot()
        ia = [c for c, _ in ra & rb]
        assert ia == sorted(set(ra.d) & set(rb.d)), "intersection"
        ua = [c for c, _ in ra | rb]
        assert ua == sorted(set(ra.d) | set(rb.d)), "union"
        if len(ids) == 1:
            z = M.Tensor(rank_ids=ids)
            for c, (zr, p) in z.getRoot() << ra:
                zr += p
            assert z.toDict() == a, "populate"
        return {"nontrivial": len(a) >= 2, "classes": ["ranks=%d" % len(ids)]}


PARTS = [Main(), AllLoopOrders(), ModelSelfCheck(), ModelLaws()]
