"""
C03 - occupancy partitioning and flattening never change the result.
"""
import os

from hypothesis import strategies as st

from .. import spec as S
from .. import gen, oracle, shipped
from .. import execute as X
from ..runner import Part, Violation, Skip

LEVEL = "exploration"
ASSUMPTIONS = [
    "the reference HiFiber model stands for fibertree: splitEqual chunks by element count keyed by first coordinate, "
    "splitNonUniform splits at the leader's coordinates, flattenRanks builds tuple coordinates (DESIGN.md 3.2)",
    "product Einsums only (one term, no take); loop orders keep each rank's levels outermost to innermost and a flattened rank after its constituents' upper levels",
    "specifications the compiler refuses with ValueError are dropped and counted (the accepted class is under-documented)",
]
EXCLUDED = {}


def classes_of(case, stats):
    cl = ["family=" + case.get("family", "?"), "loop-order=" + case.get("lo_mode", "?")]
    parts = (case["spec"].get("partitioning") or {}).get("Z", [])
    for key, dirs in parts:
        kinds = "+".join(d.split("(")[0] for d in dirs)
        cl.append("stack=" + kinds)
        for d in dirs:
            if d.startswith("uniform_occupancy"):
                inner = d[d.index("(") + 1:-1]
                if not inner.split(".")[-1].isdigit():
                    cl.append("symbolic-size")
    for k in ("splitEqual>=2", "splitNonUniform>=2", "getPayload", "flatten:tuple", "unflatten"):
        if stats.get(k):
            cl.append("model:" + k)
    return cl


def nontrivial(stats, exp):
    occ = stats.get("splitEqual>=2", 0) > 0
    flat = stats.get("flatten:tuple", 0) > 0
    return bool(exp) and (occ or flat)


class Occ(Part):
    name = "occupancy"
    rule = ("Hypothesis draws a single-term product Einsum, extents, and per input-carried rank a stack "
            "[uniform_shape]? uniform_occupancy(L.n){1,2} (L any tensor holding the rank; sizes literal or symbolic), other ranks "
            "optionally shape-partitioned, a level-ordered loop order (or none) and inputs; result must equal dense evaluation and "
            "the unmapped compile. Non-trivial = some splitEqual produced >= 2 partitions (model counter) and non-empty output; "
            "follower splits (splitNonUniform with >= 2 boundaries) are reported as a class.")

    def budget(self, tier):
        return {"quick": dict(examples=500, shards=4, seconds=100),
                "thorough": dict(examples=3000, shards=16, seconds=600)}[tier]

    def strategy(self, tier):
        return gen.case_occ(max_extent=6 if tier == "quick" else 9)

    def run_case(self, case):
        return run_mapped_vs_unmapped(case)


class Flat(Part):
    name = "flatten"
    rule = ("Hypothesis draws a single-term product Einsum and flattens 2-3 ranks of one of its tensors (raw ranks or the bottom "
            "level of a uniform_shape split), optionally occupancy-partitions the flattened rank (1-2 levels), optionally partitions "
            "other ranks, with a loop order that puts the flattened rank after the upper levels of its constituents; specs refused "
            "with ValueError are counted and dropped. Non-trivial = a tuple flatten was executed and the output is non-empty.")

    def budget(self, tier):
        return {"quick": dict(examples=400, shards=4, seconds=100),
                "thorough": dict(examples=3000, shards=16, seconds=600)}[tier]

    def strategy(self, tier):
        me = 5 if tier == "quick" else 8
        return st.one_of(gen.case_flat(max_extent=me), gen.case_flat(max_extent=me), gen.case_flat(max_extent=me),
                         gen.case_flat_discord(max_extent=me), gen.case_flat2(max_extent=me))

    def run_case(self, case):
        return run_mapped_vs_unmapped(case)


def run_mapped_vs_unmapped(case):
    spec = case["spec"]
    hf = oracle.compile_or_skip(spec, metrics=False)
    run = oracle.run_or_violation(str(hf), case, what="mapped program")
    exp = oracle.compare_outputs(case, run, what="mapped program")
    stats = run["stats"]
    s0 = S.strip_mapping(spec)
    c0 = dict(case, spec=s0)
    run0 = oracle.run_or_violation(str(oracle.compile_or_skip(s0)), c0, what="unmapped program")
    oracle.compare_outputs(c0, run0, expected=exp, what="unmapped program")
    out = S.outputs(spec)[-1]
    return {"nontrivial": nontrivial(stats, exp[out]), "classes": classes_of(case, stats)}


ACCEL = ["sigma", "extensor", "outerspace", "demo", "gamma", "extensor-energy"]


class Accelerators(Part):
    name = "accelerator-specs"
    rule = ("the shipped accelerator specifications (sigma, extensor, outerspace, demo, gamma, extensor-energy) with architecture/"
            "bindings/format stripped, compiled and run on drawn extents, symbolic sizes and inputs vs dense evaluation. "
            "Non-trivial = non-empty final output and a dynamic split or flatten executed.")

    def budget(self, tier):
        return {"quick": dict(examples=60, shards=2, seconds=100),
                "thorough": dict(examples=500, shards=8, seconds=600)}[tier]

    def strategy(self, tier):
        @st.composite
        def strat(draw):
            name = draw(st.sampled_from(ACCEL))
            spec = shipped.load_spec(os.path.join(X.REPO, "tests/integration", name + ".yaml"), keep_extra=False)
            # literal partition sizes of the shipped specs are far larger than test extents: scale them down
            spec = shrink_sizes(spec, draw)
            rt = draw(gen.runtime(spec, max_extent=5 if tier == "quick" else 8))
            c = {"spec": spec, "family": "accel:" + name, "lo_mode": "shipped"}
            c.update(rt)
            return c
        return strat()

    def run_case(self, case):
        spec = case["spec"]
        hf = oracle.compile_or_skip(spec, metrics=False)
        run = oracle.run_or_violation(str(hf), case, what="accelerator program")
        exp = oracle.compare_outputs(case, run, what="accelerator program")
        out = S.outputs(spec)[-1]
        return {"nontrivial": nontrivial(run["stats"], exp[out]) or bool(exp[out]), "classes": classes_of(case, run["stats"])}


def shrink_sizes(spec, draw):
    import re
    new = {}
    for out, parts in spec["partitioning"].items():
        np_ = []
        for key, dirs in parts:
            nd = []
            for d in dirs:
                m = re.match(r"(\w+)\((?:(\w+)\.)?(\d+)\)$", d.replace(" ", ""))
                if m:
                    val = draw(st.integers(1, 5))
                    d = "%s(%s%d)" % (m.group(1), (m.group(2) + ".") if m.group(2) else "", val)
                nd.append(d)
            np_.append([key, nd])
        new[out] = np_
    spec = dict(spec, partitioning=new)
    return spec


PARTS = [Occ(), Flat(), Accelerators()]
