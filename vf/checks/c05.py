"""
C05 - cascaded Einsums compose and are compiled independently of their predecessors.
"""
import re

from hypothesis import strategies as st

from .. import spec as S
from .. import gen, oracle
from .. import execute as X
from ..runner import Part, Violation, Skip

LEVEL = "exploration"
ASSUMPTIONS = [
    "the reference HiFiber model stands for fibertree (DESIGN.md 3.2)",
    "cascades of 2-4 Einsums without take(); intermediates carry positive values only",
    "text independence is checked in plain and spacetime mode (in metrics mode the first/last dumps legitimately differ)",
]
EXCLUDED = {}


class Exec(Part):
    name = "execution"
    rule = ("Hypothesis draws a cascade of 2-4 Einsums (each may read declared inputs and earlier outputs; sums of products; "
            "per-Einsum shape/occupancy partitioning and loop orders; global rank orders), extents and inputs; the whole program is run "
            "on the reference model and EVERY Einsum's output (intermediates too, under <Name>_<declared-or-rank-order ranks>) is "
            "compared with chained dense evaluation. Non-trivial = some later Einsum reads an earlier output and the final output is "
            "non-empty.")

    def budget(self, tier):
        return {"quick": dict(examples=250, shards=5, seconds=80),
                "thorough": dict(examples=2500, shards=16, seconds=600)}[tier]

    def strategy(self, tier):
        me = 4 if tier == "quick" else 6
        return st.one_of(gen.case_cascade(max_extent=me), gen.case_cascade(max_extent=me), gen.case_cascade(max_extent=me),
                         gen.case_cascade_affine(max_extent=me))

    def run_case(self, case):
        spec = case["spec"]
        hf = oracle.compile_or_skip(spec, metrics=False)
        run = oracle.run_or_violation(str(hf), case, what="cascade")
        exp = oracle.compare_outputs(case, run, what="cascade")
        outs = S.outputs(spec)
        reads_prev = any(t in outs[:i] for i, e in enumerate(spec["exprs"]) for t in S.expr_tensors(e))
        cl = ["einsums=%d" % len(outs)]
        if reads_prev:
            cl.append("reads-earlier-output")
        if spec["partitioning"]:
            cl.append("partitioned")
        inter_part = [o for o in outs[:-1] if o in spec["partitioning"]]
        if inter_part:
            cl.append("partitioned-intermediate")
        if any(spec["rank_order"].get(o) for o in outs[:-1]):
            cl.append("rank-ordered-intermediate")
        return {"nontrivial": reads_prev and bool(exp[outs[-1]]), "classes": cl}


_TMP = re.compile(r"\btmp(\d+)\b")


def renumber(text):
    """rename tmpN in order of first occurrence"""
    m = {}

    def sub(mo):
        k = mo.group(1)
        if k not in m:
            m[k] = str(len(m))
        return "tmp" + m[k]
    return _TMP.sub(sub, text)


def slice_spec(spec, j, i):
    """the specification restricted to Einsums j..i (same declaration and mapping)"""
    s = dict(spec)
    s["exprs"] = spec["exprs"][j:i + 1]
    return s


class Text(Part):
    name = "text-independence"
    rule = ("for a drawn cascade E_0..E_n (plain or with spacetime) and every j <= i: the text emitted for E_i when compiling "
            "[E_j..E_i] (suffix after the text of [E_j..E_{i-1}], which must be a textual prefix) equals the text of compiling [E_i] "
            "alone with the same declaration and mapping, after renumbering tmpN by first occurrence. Non-trivial = i >= 1 and E_i "
            "reads an earlier output or shares an input tensor with an earlier Einsum in the slice.")

    def budget(self, tier):
        return {"quick": dict(examples=120, shards=3, seconds=80),
                "thorough": dict(examples=1200, shards=16, seconds=600)}[tier]

    def strategy(self, tier):
        @st.composite
        def strat(draw):
            st_mode = draw(st.booleans())
            if draw(st.integers(0, 3)) == 0:
                c = draw(gen.case_cascade_affine(max_extent=3))
                st_mode = False
            else:
                c = draw(gen.case_cascade(max_extent=3, with_spacetime=st_mode))
            return {"spec": c["spec"], "spacetime_mode": st_mode}
        return strat()

    def describe(self, case):
        return {"yaml": S.to_yaml(case["spec"])}

    def run_case(self, case):
        spec = case["spec"]
        n = len(spec["exprs"])
        texts = {}
        for j in range(n):
            for i in range(j, n):
                texts[(j, i)] = str(oracle.compile_or_skip(slice_spec(spec, j, i), metrics=False))
        nontrivial = False
        for i in range(n):
            alone = renumber(texts[(i, i)])
            for j in range(i):
                whole, prefix = texts[(j, i)], texts[(j, i - 1)]
                if not whole.startswith(prefix + "\n"):
                    raise Violation("text of Einsums %d..%d is not a prefix of the text of Einsums %d..%d" % (j, i - 1, j, i),
                                    sig="prefix", details={"yaml": S.to_yaml(spec), "prefix": prefix, "whole": whole})
                mine = renumber(whole[len(prefix) + 1:])
                if mine != alone:
                    a, b = mine.split("\n"), alone.split("\n")
                    k = next((x for x in range(min(len(a), len(b))) if a[x] != b[x]), min(len(a), len(b)))
                    raise Violation(
                        "Einsum %d (%s) compiled after Einsums %d..%d differs from its stand-alone compilation at line %d: %r vs %r"
                        % (i, S.out_name(spec["exprs"][i]), j, i - 1, k, a[k] if k < len(a) else None, b[k] if k < len(b) else None),
                        sig="text-differs", details={"yaml": S.to_yaml(spec), "in_cascade": mine, "alone": alone})
            prev_t = set(t for e in spec["exprs"][:i] for t in S.expr_tensors(e) + [S.out_name(e)])
            if i >= 1 and any(t in prev_t for t in S.expr_tensors(spec["exprs"][i])):
                nontrivial = True
        cl = ["einsums=%d" % n, "spacetime" if case["spacetime_mode"] else "plain"]
        return {"nontrivial": nontrivial, "classes": cl}


PARTS = [Exec(), Text()]
