"""
C10 - statement order respects every data and control dependence.
"""
import glob
import os
import types

from hypothesis import strategies as st

from .. import spec as S
from .. import gen, oracle, shipped
from .. import execute as X
from ..runner import Part, Violation, Skip

LEVEL = "exploration"
ASSUMPTIONS = [
    "the dependence relation is the edge set of FlowGraph.get_graph() (public IR API); whether the graph contains every dependence "
    "execution needs is decided by C01-C06 (execution / closedness), not here",
    "topological tie-breaks are explored by replacing topological_sort as seen by teaal.ir.flow_graph only with Kahn's algorithm "
    "driven by Hypothesis-drawn choices (a proxy object for the name `nx` inside that module; /repo is not edited)",
]


def spacetime_with_dynamic_partitioning(case):
    """
    F-C10-1: nothing in the flow graph orders the Graphics node (createCanvas) relative to the first dynamic-partitioning
    nodes, but translating createCanvas snapshots the tensors' current rank lists: under a linear extension that places it
    after `A_IJ2IJ1I = ...` the activities address the intermediate rank (ij1i), which no loop binds.  Class: a spacetime
    section on an Einsum with an occupancy (dynamic) partitioning.
    """
    spec = case.get("spec") or {}
    for out in (spec.get("spacetime") or {}):
        for key, dirs in (spec.get("partitioning") or {}).get(out, []):
            if any(d.startswith("uniform_occupancy") for d in dirs):
                return True
    return False


EXCLUDED = {"spacetime_with_dynamic_partitioning": spacetime_with_dynamic_partitioning}


class NxProxy(types.ModuleType):
    """delegates everything to networkx except topological_sort"""

    def __init__(self, real, sorter):
        super().__init__("nx_proxy")
        object.__setattr__(self, "_real", real)
        object.__setattr__(self, "_sorter", sorter)

    def __getattr__(self, name):
        if name == "topological_sort":
            return object.__getattribute__(self, "_sorter")
        return getattr(object.__getattribute__(self, "_real"), name)


def kahn(choices):
    state = {"k": 0}

    def sorter(g):
        indeg = {n: g.in_degree(n) for n in g.nodes}
        ready = sorted([n for n in g.nodes if indeg[n] == 0], key=repr)
        out = []
        while ready:
            c = choices[state["k"] % len(choices)] if choices else 0
            state["k"] += 1
            n = ready.pop(c % len(ready))
            out.append(n)
            new = []
            for _, m in g.out_edges(n):
                indeg[m] -= 1
                if indeg[m] == 0:
                    new.append(m)
            ready.extend(sorted(new, key=repr))
        if len(out) != len(g.nodes):
            raise AssertionError("graph has a cycle")
        return iter(out)
    return sorter


def check_rank_production(order, part_ir, where, det):
    """
    A dependence the graph may have forgotten, derived from the partitioning alone: a statement that consumes rank R of
    tensor T (a swizzle to an order naming R, a partitioning of R) must come after the statement that produces R for T
    (the partitioning of R's source rank(s)).
    """
    from teaal.ir.flow_nodes import PartNode, SwizzleNode
    producers = {}
    for i, n in enumerate(order):
        if isinstance(n, PartNode):
            try:
                made = set(part_ir.partition_names(tuple(n.get_ranks()), False)) | set(part_ir.partition_names(tuple(n.get_ranks()), True))
            except Exception:
                continue
            for r in made - set(n.get_ranks()):
                producers.setdefault((n.get_tensor(), r), []).append(i)
    for i, n in enumerate(order):
        if isinstance(n, (PartNode, SwizzleNode)):
            for r in n.get_ranks():
                ps = producers.get((n.get_tensor(), r))
                if ps and min(ps) > i:
                    raise Violation("%s: %r uses rank %s of %s at position %d, before the statement that creates that rank (position %d)"
                                    % (where, n, r, n.get_tensor(), i, min(ps)), sig="rank-used-before-produced", details=det)


def check_order(graph, order, loop_ranks, where, det):
    from teaal.ir.flow_nodes import LoopNode, EndLoopNode, OtherNode
    import networkx as nx
    if len(order) != len(set(order)) or set(order) != set(graph.nodes):
        raise Violation("%s: sorted statement list is not a permutation of the graph's nodes (%d listed, %d distinct, %d nodes)"
                        % (where, len(order), len(set(order)), len(graph.nodes)), sig="not-a-permutation", details=det)
    pos = {n: i for i, n in enumerate(order)}
    for u, v in graph.edges:
        if pos[u] >= pos[v]:
            # is it a hoisting error? v (dependent) placed above a loop it transitively depends on
            kind = "edge-backward"
            for r in loop_ranks:
                ln = LoopNode(r)
                if ln in graph and v in nx.descendants(graph, ln) and pos[v] < pos[ln]:
                    kind = "hoisted-above-loop-it-depends-on"
            raise Violation("%s: %r is placed before %r on which it depends (%s)" % (where, v, u, kind), sig=kind, details=det)
    chain = [LoopNode(r) for r in loop_ranks] + [OtherNode("Body")] + [EndLoopNode(r) for r in reversed(loop_ranks)]
    for a, b in zip(chain, chain[1:]):
        if a not in pos or b not in pos or pos[a] >= pos[b]:
            raise Violation("%s: loop nest broken: %r does not precede %r" % (where, a, b), sig="loop-nest", details=det)
    # bracket structure consumed by the translator
    stack = []
    for n in order:
        if isinstance(n, LoopNode):
            stack.append(n.get_rank())
        elif isinstance(n, EndLoopNode):
            if not stack or stack.pop() != n.get_rank():
                raise Violation("%s: EndLoop(%s) does not close the innermost open loop" % (where, n.get_rank()),
                                sig="brackets", details=det)
    if stack:
        raise Violation("%s: loops left open: %r" % (where, stack), sig="brackets", details=det)
    between = 0
    loops = [pos[LoopNode(r)] for r in loop_ranks]
    if len(loops) >= 2:
        between = sum(1 for n, p in pos.items() if loops[0] < p < loops[-1] and not isinstance(n, LoopNode))
    return between


def explore(yaml_text, metrics_mode, choices, det):
    """builds the flow graph of every Einsum under the default and the drawn tie-breaks; returns #nodes between loops"""
    import networkx as nx
    import teaal.ir.flow_graph as fgmod
    from teaal.ir.flow_graph import FlowGraph
    from teaal.ir.program import Program
    from teaal.ir.hardware import Hardware
    from teaal.ir.metrics import Metrics
    from teaal.parse import Einsum, Mapping, Architecture, Bindings, Format
    between = 0
    n_einsums = 0
    for patched in (False, True):
        try:
            e, m = Einsum.from_str(yaml_text), Mapping.from_str(yaml_text)
            prog = Program(e, m)
            hw = fmt = None
            if metrics_mode:
                a, b, fmt = Architecture.from_str(yaml_text), Bindings.from_str(yaml_text), Format.from_str(yaml_text)
                if not a.get_spec():
                    raise Skip("no-hardware-sections")
                hw = Hardware(a, b, prog)
            n_einsums = len(e.get_expressions())
            for i in range(n_einsums):
                prog.add_einsum(i)
                met = Metrics(prog, hw, fmt) if hw else None
                real = fgmod.nx
                if patched:
                    fgmod.nx = NxProxy(nx, kahn(choices))
                try:
                    fg = FlowGraph(prog, met, ["hoist"])
                finally:
                    fgmod.nx = real
                loop_ranks = prog.get_loop_order().get_ranks()
                where = "Einsum %d, %s tie-breaks" % (i, "drawn" if patched else "default")
                between += check_order(fg.get_graph(), fg.get_sorted(), loop_ranks, where, det)
                check_rank_production(fg.get_sorted(), prog.get_partitioning(), where, det)
                prog.reset()
        except ValueError as ex:
            raise Skip("rejected_by_compiler", str(ex)[:80])
        except (Violation, Skip, AssertionError):
            raise
        except Exception as ex:
            raise Skip("compiler_crash", "%s %s" % (type(ex).__name__, X.innermost_teaal_frame(ex)))
    return between


class Main(Part):
    name = "main"
    rule = ("Hypothesis draws a specification from every family (plain/spacetime) and a list of tie-break choices; for every Einsum "
            "FlowGraph(program, metrics, ['hoist']) is built under networkx's own topological order and under Kahn's algorithm driven "
            "by the drawn choices; get_sorted() must be a permutation of get_graph()'s nodes, every edge must go forward, "
            "Loop(r1)<..<Loop(rn)<Body<EndLoop(rn)<..<EndLoop(r1), Loop/EndLoop must nest as brackets, and no node may sit above a "
            "loop it is a descendant of. Non-trivial = >= 1 non-loop node sits between the outermost and innermost LoopNode.")

    def budget(self, tier):
        return {"quick": dict(examples=350, shards=6, seconds=80),
                "thorough": dict(examples=3000, shards=16, seconds=600)}[tier]

    def strategy(self, tier):
        @st.composite
        def strat(draw):
            c = draw(gen.corpus_case(max_extent=3, families=("occ", "occ", "flat", "flat", "flatd", "flatd", "flat2", "affine", "affine",
                                                             "shape", "cascade", "plain", "conv2p")))
            return {"spec": c["spec"], "family": c.get("family"), "mode": c.get("mode"),
                    "choices": draw(st.lists(st.integers(0, 7), min_size=8, max_size=40))}
        return strat()

    def describe(self, case):
        return {"yaml": S.to_yaml(case["spec"]), "choices": case["choices"]}

    def run_case(self, case):
        y = S.to_yaml(case["spec"])
        between = explore(y, False, case["choices"], {"yaml": y, "choices": case["choices"]})
        return {"nontrivial": between > 0, "classes": ["family=%s" % case.get("family"), "mode=%s" % case.get("mode")]}


class ShippedMetrics(Part):
    name = "shipped-metrics"
    rule = ("every shipped YAML with architecture/bindings/format, flow graph built WITH the Metrics object (metrics nodes interleaved "
            "with the loop chain) under drawn tie-breaks; same invariants")

    def budget(self, tier):
        return {"quick": dict(examples=40, shards=2, seconds=60),
                "thorough": dict(examples=400, shards=8, seconds=600)}[tier]

    def strategy(self, tier):
        names = sorted(os.path.basename(p) for p in glob.glob(os.path.join(X.REPO, "tests/integration/*.yaml")))

        @st.composite
        def strat(draw):
            return {"shipped": draw(st.sampled_from(names)),
                    "choices": draw(st.lists(st.integers(0, 7), min_size=8, max_size=40))}
        return strat()

    def describe(self, case):
        return case

    def run_case(self, case):
        with open(os.path.join(X.REPO, "tests/integration", case["shipped"])) as f:
            y = f.read()
        try:
            between = explore(y, True, case["choices"], dict(case))
        except KeyError:
            raise Skip("not-a-full-spec")
        return {"nontrivial": between > 0, "classes": ["shipped=" + case["shipped"]]}


class Observable(Part):
    """
    The dependence relation that matters is the real one: a dependence the graph forgot shows up as an unbound name or a
    wrong tensor under SOME linear extension.  Whole programs are compiled under drawn tie-breaks and judged by closedness
    (C06's analysis) and, for executable families, by execution against dense evaluation.
    """
    name = "tie-breaks-observable"
    rule = ("Hypothesis draws a specification (every family, incl. two projected inputs and dynamic followers with halo), inputs and "
            "tie-break choices; the WHOLE program is compiled with topological_sort (as seen by teaal.ir.flow_graph) replaced by "
            "Kahn's algorithm on the drawn choices; the emitted text must be closed Python (definite assignment) and, for executable "
            "families, compute the dense result on the reference model. Cases in known-finding classes of C01/C04/C06 are skipped. "
            "Non-trivial = the drawn order changed the emitted text w.r.t. the default order, or >= 1 non-update statement in a loop.")

    def budget(self, tier):
        return {"quick": dict(examples=250, shards=5, seconds=80),
                "thorough": dict(examples=2500, shards=16, seconds=600)}[tier]

    def strategy(self, tier):
        @st.composite
        def strat(draw):
            # weighted towards dynamic partitioning, flattening and index math: that is where statements sit between loops
            c = draw(gen.corpus_case(max_extent=3, families=("occ", "occ", "occ", "flat", "flat", "flatd", "flatd", "flat2", "affine", "affine",
                                                             "shape", "cascade", "plain", "conv2p")))
            c["choices"] = draw(st.lists(st.integers(0, 7), min_size=8, max_size=40))
            return c
        return strat()

    def run_case(self, case):
        import networkx as nx
        import teaal.ir.flow_graph as fgmod
        from .. import pyscope
        from . import c01, c04, c06
        from .. import hfmodel as M
        spec = case["spec"]
        for name, pred in list(c01.EXCLUDED.items()) + list(c06.EXCLUDED.items()) + \
                (list(c04.EXCLUDED.items()) if case.get("template") else []):
            if pred(case):
                raise Skip("known-finding-of-other-property", name)
        default_text = str(oracle.compile_or_skip(spec, metrics=False, crash_is_violation=False))
        real = fgmod.nx
        fgmod.nx = NxProxy(nx, kahn(case["choices"]))
        try:
            hf = X.compile_spec(spec, False)
        except Exception as e:
            # every linear extension of the graph must be translatable: the default order was
            exc = e.exc if isinstance(e, X.Rejected) else e
            raise Violation("the specification compiles under networkx's order but under the drawn linear extension of the same "
                            "graph translation fails with %s: %s [%s]" % (type(exc).__name__, str(exc)[:120], X.innermost_teaal_frame(exc)),
                            sig="extension-untranslatable:" + type(exc).__name__,
                            details={"yaml": S.to_yaml(spec), "choices": case["choices"]})
        finally:
            fgmod.nx = real
        text = str(hf)
        tree = c06.assert_closed(text, spec, what="program under drawn tie-breaks")
        executable = not case.get("reverse_follow") and "uniform_occupancy" not in S.to_yaml(spec) or not case.get("template")
        ran = False
        if executable:
            try:
                run = oracle.run_or_violation(text, case, what="program under drawn tie-breaks")
                oracle.compare_outputs(case, run, what="program under drawn tie-breaks")
                ran = True
            except Skip:
                pass
        cl = ["family=%s" % case.get("family"), "executed" if ran else "static-only",
              "text-changed" if text != default_text else "text-same"]
        return {"nontrivial": text != default_text or pyscope.non_update_in_loop(tree) >= 1, "classes": cl}


class GeneratedMetrics(Part):
    name = "generated-metrics"
    rule = ("D_metrics specifications: the flow graph is built WITH the Metrics object (metrics header/footer/body nodes, eager "
            "input nodes, merger swizzles interleaved with the loop chain) under default and drawn tie-breaks; same graph invariants "
            "as the main part; in addition the WHOLE metrics-mode program is compiled under the drawn linear extension and must be "
            "closed Python (definite assignment), so that a dependence missing from the graph is observed")

    def budget(self, tier):
        return {"quick": dict(examples=150, shards=3, seconds=80),
                "thorough": dict(examples=2000, shards=8, seconds=600)}[tier]

    def strategy(self, tier):
        from .. import gen_metrics

        @st.composite
        def strat(draw):
            c = draw(gen_metrics.case_metrics(n_min=1, n_max=3, with_inputs=False))
            return {"spec": c["spec"], "rejected": bool(c.get("mapping_rejected")),
                    "choices": draw(st.lists(st.integers(0, 7), min_size=8, max_size=40))}
        return strat()

    def describe(self, case):
        return {"yaml": S.to_yaml(case["spec"]), "choices": case["choices"]}

    def run_case(self, case):
        if case["rejected"]:
            raise Skip("rejected_by_compiler", "mapping")
        y = S.to_yaml(case["spec"])
        between = explore(y, True, case["choices"], {"yaml": y, "choices": case["choices"]})
        cl = ["family=metrics"]
        # a dependence the graph forgot is observable: the whole metrics-mode program compiled under the drawn linear
        # extension must still be closed Python (e.g. a loop's metrics header tracing a fiber before the getPayload() that binds it)
        import networkx as nx
        import teaal.ir.flow_graph as fgmod
        from . import c06, c11
        spec = case["spec"]
        if any(pred(case) for pred in list(c06.EXCLUDED.values()) + list(c11.EXCLUDED.values())):
            cl.append("observable-skipped:known-finding-class")
            return {"nontrivial": between > 0, "classes": cl}
        try:
            default_text = str(X.compile_text(y, metrics=True))
        except Exception:
            cl.append("observable-skipped:default-order-does-not-compile")
            return {"nontrivial": between > 0, "classes": cl}
        c06.assert_closed(default_text, spec, what="metrics-mode program")
        real = fgmod.nx
        fgmod.nx = NxProxy(nx, kahn(case["choices"]))
        try:
            text = str(X.compile_text(y, metrics=True))
        except Exception as e:
            exc = e.exc if isinstance(e, X.Rejected) else e
            raise Violation("the metrics-mode specification compiles under networkx's order but under the drawn linear extension of "
                            "the same graph translation fails with %s: %s [%s]"
                            % (type(exc).__name__, str(exc)[:120], X.innermost_teaal_frame(exc)),
                            sig="extension-untranslatable:" + type(exc).__name__, details={"yaml": y, "choices": case["choices"]})
        finally:
            fgmod.nx = real
        c06.assert_closed(text, spec, what="metrics-mode program under drawn tie-breaks")
        cl.append("observable:text-changed" if text != default_text else "observable:text-same")
        return {"nontrivial": between > 0, "classes": cl}


PARTS = [Main(), ShippedMetrics(), Observable(), GeneratedMetrics()]
