"""
python -m vf.findcase <Cxx> <part> <excluded-class> <out.json> [n]
Search (Hypothesis, seeded) for a failing case inside a named excluded class and pin it as a finding replay file.
Development tool for writing known_findings.json entries; never run by a check.
"""
import importlib
import json
import os
import sys

import hypothesis
from hypothesis import given, settings, HealthCheck, Phase, Verbosity


def main():
    pid, part_name, cls, out = sys.argv[1:5]
    n = int(sys.argv[5]) if len(sys.argv) > 5 else 3000
    from . import runner
    from . import spec as S
    mod = importlib.import_module("vf.checks." + pid.lower())
    part = [p for p in mod.PARTS if p.name == part_name][0]
    pred = mod.EXCLUDED[cls]
    others = [p for k, p in mod.EXCLUDED.items() if k != cls]
    found = {}
    part.setup_shard("quick", 0, 0)

    @hypothesis.seed(12345)
    @settings(max_examples=n, database=None, deadline=None, report_multiple_bugs=False, verbosity=Verbosity.quiet,
              phases=[Phase.generate, Phase.shrink], suppress_health_check=list(HealthCheck))
    @given(part.strategy("quick"))
    def prop(case):
        if not pred(case) or any(o(case) for o in others):
            return
        try:
            part.run_case(case)
        except runner.Skip:
            return
        except runner.Violation as v:
            found["case"], found["v"] = case, v
            raise
    try:
        prop()
    except runner.Violation:
        pass
    part.teardown_shard()
    if not found:
        print("no failing case found in class", cls)
        sys.exit(1)
    v = found["v"]
    body = {"property": pid, "part": part_name, "violation": v.msg, "sig": v.sig, "details": v.details, "case": found["case"]}
    with open(out, "w") as f:
        json.dump(body, f, indent=1, default=S._default)
    print("pinned", out, ":", v.msg[:300])
    print(S.to_yaml(found["case"]["spec"]) if isinstance(found["case"], dict) and "spec" in found["case"] else "")


if __name__ == "__main__":
    main()
