"""
The canonical default mapping, computed from the specification value exactly as property C19 states it:
declared rank order; loop order = output ranks as written, then the remaining ranks in order of first textual
appearance on the right-hand side, each partitioned rank replaced in place by its levels outermost -> innermost;
no partitioning.
"""
from . import spec as S


def default_rank_order(spec):
    return {n: list(rs) for n, rs in spec["decl"]}


def first_appearance_ranks(expr):
    """output index variables as written, then RHS index variables in textual order"""
    out = []
    for ie in expr["out"][1]:
        for _, v in ie:
            if v.upper() not in out:
                out.append(v.upper())
    for t in expr["terms"]:
        for f in t["factors"]:
            if "t" in f:
                for ie in f["idx"]:
                    for _, v in ie:
                        if v.upper() not in out:
                            out.append(v.upper())
    return out


def levels(rank, dirs):
    n = len(dirs)
    return [rank + str(i) for i in range(n, -1, -1)]


def default_loop_order(spec, expr):
    out = S.out_name(expr)
    parts = dict((k, d) for k, d in (spec.get("partitioning") or {}).get(out, []) if not k.startswith("("))
    # a rank that follows another uses the leader's directive stack
    res = []
    for r in first_appearance_ranks(expr):
        if r in parts:
            dirs = parts[r]
            if dirs and dirs[0].startswith("follow"):
                # followers are tensor ranks, never index variables of the Einsum: not reached here
                continue
            res += levels(r, dirs)
        else:
            res.append(r)
    return res
