"""
Own reader of the architecture section of a specification value (C14): component class, attributes, instance count
of the level that declares it, clock frequency of the configuration.  Never uses the compiler's Level/Hardware classes.
"""
import re

_LEVEL = re.compile(r"^\s*([A-Za-z_][A-Za-z_0-9]*)\s*(?:\[0\.\.\s*(\d+)\s*\])?\s*$")


def instances(level_name):
    m = _LEVEL.match(str(level_name))
    if not m:
        raise ValueError("level name " + repr(level_name))
    return 1 if m.group(2) is None else int(m.group(2)) + 1


def components(arch):
    """{config: {"frequency": f, "components": {name: dict(cls=..., attrs=..., instances=n)}}}"""
    out = {}
    for cfg, roots in arch.items():
        info = {"frequency": (roots[0].get("attributes") or {}).get("clock_frequency"), "components": {}}

        def walk(level):
            n = instances(level["name"])
            for loc in level.get("local") or []:
                info["components"][loc["name"]] = {"cls": str(loc["class"]).lower(), "attrs": loc.get("attributes") or {}, "instances": n}
            for sub in level.get("subtree") or []:
                walk(sub)
        for r in roots:
            walk(r)
        out[cfg] = info
    return out
