"""Property-based verification framework for the TeAAL compiler (see /verif/DESIGN.md)."""
