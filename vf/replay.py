"""python -m vf.replay <replay.json> : re-run one saved case without Hypothesis; exit 1 if it still violates"""
import importlib
import json
import os
import sys


def main():
    path = sys.argv[1]
    if os.environ.get("PYTHONHASHSEED") != "0":
        env = dict(os.environ, PYTHONHASHSEED="0", PYTHONDONTWRITEBYTECODE="1")
        os.execve(sys.executable, [sys.executable, "-m", "vf.replay"] + sys.argv[1:], env)
    from . import runner
    with open(path) as f:
        body = json.load(f)
    mod = importlib.import_module("vf.checks." + body["property"].lower())
    v = runner.replay_case(mod, body.get("part", "main"), body["case"])
    if v is None:
        print("replay passes: property=%s holds on %s" % (body["property"], path))
        sys.exit(0)
    print("VIOLATION property=%s replay=%s" % (body["property"], os.path.abspath(path)))
    print("  " + v.msg)
    sys.exit(1)


if __name__ == "__main__":
    main()
