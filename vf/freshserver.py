"""
A process that imports the compiler once, never compiles anything itself, and for every request forks a child that
compiles one specification in pristine interpreter state (C15's history-independence oracle).
Protocol: one JSON line per request {"yaml": ..., "metrics": bool} -> one JSON line {"ok": bool, "text"|"error": ...}.
"""
import json
import os
import sys


def main():
    sys.dont_write_bytecode = True
    repo = os.environ.get("VERIF_REPO", "/repo")
    sys.path.insert(0, repo)
    import teaal.parse  # noqa: F401
    import teaal.trans.hifiber  # noqa: F401
    from teaal.parse import Einsum, Mapping, Architecture, Bindings, Format
    from teaal.trans.hifiber import HiFiber
    for line in sys.stdin:
        req = json.loads(line)
        r, w = os.pipe()
        pid = os.fork()
        if pid == 0:
            os.close(r)
            try:
                y = req["yaml"]
                objs = [Einsum.from_str(y), Mapping.from_str(y)]
                if req.get("metrics"):
                    objs += [Architecture.from_str(y), Bindings.from_str(y), Format.from_str(y)]
                out = {"ok": True, "text": str(HiFiber(*objs))}
            except BaseException as e:
                out = {"ok": False, "error": "%s: %s" % (type(e).__name__, str(e)[:200])}
            with os.fdopen(w, "w") as f:
                f.write(json.dumps(out))
            os._exit(0)
        os.close(w)
        with os.fdopen(r) as f:
            data = f.read()
        os.waitpid(pid, 0)
        sys.stdout.write((data or json.dumps({"ok": False, "error": "child died"})) + "\n")
        sys.stdout.flush()


if __name__ == "__main__":
    main()
