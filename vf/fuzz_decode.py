"""byte input -> (grammar, text) decoding shared by the atheris target and the C17 check"""
KINDS = ["einsum", "directive", "rank-tuple", "stamp", "level"]
ALPHABET = list("ABkmn_019 \t[](),.*+-=") + ["take(", "0..", ".pos", ".coord", "flatten(", "follow(", "uniform_shape(", "nway_shape(",
                                              "uniform_occupancy("]


def decode(data):
    if not data:
        return None, None
    kind = KINDS[data[0] % len(KINDS)]
    text = data[1:].decode("latin-1")
    text = "".join(ch if 32 <= ord(ch) < 127 or ch == "\t" else ALPHABET[ord(ch) % len(ALPHABET)] for ch in text)
    return kind, text
