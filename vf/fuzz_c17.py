#!/venv/bin/python
"""
Coverage-guided fuzzing (atheris / libFuzzer) of the five specification grammars with C17's losslessness oracle.

Each input's first byte selects the grammar; the rest is decoded as text.  The parser must raise, or the accepted string
must be lossless (vf.checks.c17.lossless).  An oracle failure raises, libFuzzer saves the input as a crash artifact, and
the calling check turns it into a replay file.

usage: python -m vf.fuzz_c17 [libFuzzer options] <corpus dir>
"""
import os
import sys

HERE = os.path.dirname(os.path.dirname(os.path.abspath(__file__)))
sys.path.insert(0, HERE)
if os.path.isdir(os.path.join(HERE, ".deps")):
    sys.path.append(os.path.join(HERE, ".deps"))
sys.path.insert(0, os.environ.get("VERIF_REPO", "/repo"))

import atheris  # noqa: E402

with atheris.instrument_imports(include=["teaal.parse", "lark.parsers.earley", "lark.parsers.xearley", "lark.parsers.earley_forest", "lark.parsers.earley_common"]):
    import teaal.parse  # noqa: F401,E402
    from teaal.parse.equation import EquationParser  # noqa: F401,E402

from vf import refparse  # noqa: E402
from vf.checks import c17  # noqa: E402

from vf.fuzz_decode import decode  # noqa: E402


class LossyParse(Exception):
    pass


def one_input(data):
    kind, text = decode(data)
    if kind is None or "\n" in text:
        return
    try:
        got = c17.parse(kind, text)
    except refparse.ExtractError as e:
        raise LossyParse("%s %r accepted with an unexpected tree shape: %s" % (kind, text, e))
    except Exception:
        return                      # rejected: fine
    if not c17.lossless(kind, text, got):
        raise LossyParse("%s %r accepted but parsed as %r" % (kind, text, got))


def main():
    atheris.Setup(sys.argv, one_input)
    atheris.Fuzz()


if __name__ == "__main__":
    main()
