"""
Flow-sensitive definite-assignment analysis of emitted programs (C06).

A `for` binds its targets inside the body only and contributes nothing after the
loop (zero-trip); `if/else` contributes the intersection; lambdas and
comprehensions bind their parameters locally; augmented assignment reads its
target.  Statement kinds the compiler never emits at top level are reported.
"""
import ast
import builtins


class Scope:
    def __init__(self, supplied):
        self.supplied = set(supplied)
        self.errors = []          # (lineno, name, kind)
        self.loop_vars_used_outside = []

    def reads(self, node, bound):
        if isinstance(node, ast.Lambda):
            args = {a.arg for a in node.args.args}
            self.reads(node.body, bound | args)
            return
        if isinstance(node, (ast.ListComp, ast.GeneratorExp, ast.SetComp)):
            b = set(bound)
            for g in node.generators:
                self.reads(g.iter, b)
                b |= self.targets(g.target)
                for cond in g.ifs:
                    self.reads(cond, b)
            self.reads(node.elt, b)
            return
        if isinstance(node, ast.DictComp):
            b = set(bound)
            for g in node.generators:
                self.reads(g.iter, b)
                b |= self.targets(g.target)
            self.reads(node.key, b)
            self.reads(node.value, b)
            return
        if isinstance(node, ast.Name):
            if isinstance(node.ctx, ast.Load) and node.id not in bound and node.id not in self.supplied \
                    and not hasattr(builtins, node.id):
                self.errors.append((node.lineno, node.id, "unbound"))
            return
        for ch in ast.iter_child_nodes(node):
            self.reads(ch, bound)

    def targets(self, t):
        return {n.id for n in ast.walk(t) if isinstance(n, ast.Name)}

    def block(self, stmts, bound):
        bound = set(bound)
        for s in stmts:
            bound = self.stmt(s, bound)
        return bound

    def stmt(self, s, bound):
        if isinstance(s, ast.Assign):
            self.reads(s.value, bound)
            for t in s.targets:
                if isinstance(t, ast.Name):
                    bound = bound | {t.id}
                elif isinstance(t, ast.Subscript):
                    self.reads(t.value, bound)
                    self.reads(t.slice, bound)
                elif isinstance(t, ast.Attribute):
                    self.reads(t.value, bound)
                else:
                    self.errors.append((s.lineno, type(t).__name__, "unsupported-target"))
            return bound
        if isinstance(s, ast.AugAssign):
            self.reads(s.value, bound)
            if isinstance(s.target, ast.Name):
                if s.target.id not in bound and s.target.id not in self.supplied:
                    self.errors.append((s.lineno, s.target.id, "unbound"))
            elif isinstance(s.target, ast.Subscript):
                self.reads(s.target.value, bound)
                self.reads(s.target.slice, bound)
            else:
                self.reads(s.target.value, bound)
            return bound
        if isinstance(s, ast.Expr):
            self.reads(s.value, bound)
            return bound
        if isinstance(s, ast.For):
            self.reads(s.iter, bound)
            inner = bound | self.targets(s.target)
            self.block(s.body, inner)
            if s.orelse:
                self.errors.append((s.lineno, "for-else", "unsupported"))
            return bound          # zero-trip: nothing new is definitely bound after the loop
        if isinstance(s, ast.If):
            self.reads(s.test, bound)
            b1 = self.block(s.body, bound)
            b2 = self.block(s.orelse, bound)
            return b1 & b2
        self.errors.append((s.lineno, type(s).__name__, "unsupported-statement"))
        return bound


def check(code, supplied):
    """returns (tree, errors); raises SyntaxError if the text does not parse"""
    tree = ast.parse(code)
    sc = Scope(supplied)
    sc.block(tree.body, set())
    return tree, sc.errors


def loop_depth(tree):
    best = 0

    def rec(stmts, d):
        nonlocal best
        for s in stmts:
            if isinstance(s, ast.For):
                best = max(best, d + 1)
                rec(s.body, d + 1)
            elif isinstance(s, ast.If):
                rec(s.body, d)
                rec(s.orelse, d)
    rec(tree.body, 0)
    return best


def non_update_in_loop(tree):
    """number of statements inside some loop that are not for/augassign (hoisting candidates, intervals, metrics...)"""
    n = 0

    def rec(stmts, inloop):
        nonlocal n
        for s in stmts:
            if isinstance(s, ast.For):
                rec(s.body, True)
            elif isinstance(s, ast.If):
                if inloop:
                    n += 1
                rec(s.body, inloop)
                rec(s.orelse, inloop)
            elif inloop and not isinstance(s, ast.AugAssign):
                n += 1
    rec(tree.body, False)
    return n
