"""
The execution oracle shared by C01-C05, C07, C11, C16:
compile with the real compiler, run on the reference model, compare with dense evaluation.
"""
from . import spec as S
from . import dense
from . import execute as X
from . import hfmodel as M
from .runner import Violation, Skip


def compile_or_skip(spec, metrics=None, crash_is_violation=True):
    try:
        return X.compile_spec(spec, metrics)
    except X.Rejected as r:
        raise Skip("rejected_by_compiler", "%s [%s]" % (str(r)[:80], r.frame))
    except RecursionError:
        raise
    except Exception as e:
        frame = X.innermost_teaal_frame(e)
        if crash_is_violation:
            raise Violation("compiler crashed with %s: %s [%s]" % (type(e).__name__, str(e)[:200], frame),
                            sig="compile-crash:%s:%s" % (type(e).__name__, frame),
                            details={"yaml": S.to_yaml(spec)})
        raise Skip("compiler_crash", "%s [%s]" % (type(e).__name__, frame))


def run_or_violation(text, case, what="program", watch=None):
    spec = case["spec"]
    try:
        return X.run_text(text, spec, case["extents"], case.get("scalars", {}), case.get("sizes", {}),
                          X.inputs_from_json(case["inputs"]), watch=watch)
    except M.Unsupported as u:
        raise Skip("unsupported_by_model", str(u))
    except X.ProgramError as pe:
        frame = ""
        raise Violation("%s failed: %s" % (what, pe),
                        sig="run:%s:%s" % (pe.kind, _line_shape(pe.line)),
                        details={"yaml": S.to_yaml(spec), "text": text})


def _line_shape(line):
    """coarse shape of a program line for bucketing: identifiers removed"""
    import re
    s = re.sub(r"[A-Za-z_][A-Za-z_0-9]*", "x", (line or "").strip())
    s = re.sub(r"\d+", "0", s)
    return s[:40]


def expected_outputs(case):
    spec = case["spec"]
    return dense.eval_spec(spec, X.inputs_from_json(case["inputs"]), case.get("scalars", {}), case["extents"])


def compare_outputs(case, run, expected=None, what="program", which=None):
    """every Einsum's output (also intermediates) equals dense evaluation, under the right name and rank ids"""
    spec = case["spec"]
    if expected is None:
        expected = expected_outputs(case)
    for name in (which or S.outputs(spec)):
        got, err = X.output_map(run["ns"], spec, name)
        if err:
            raise Violation("%s: %s" % (what, err), sig="output-binding:" + ("missing" if "is missing" in err else "rank-ids" if "rank ids" in err else "malformed"),
                            details={"yaml": S.to_yaml(spec)})
        exp = expected[name]
        if got != exp:
            missing = {k: v for k, v in exp.items() if k not in got}
            extra = {k: v for k, v in got.items() if k not in exp}
            wrong = {k: (got[k], exp[k]) for k in got if k in exp and got[k] != exp[k]}
            kind = "missing" if missing and not extra and not wrong else "extra" if extra and not missing and not wrong else "wrong-value"
            raise Violation(
                "%s computes %s wrongly (%s): got %r expected %r" % (what, name, kind, _short(got), _short(exp)),
                sig="value:" + kind,
                details={"yaml": S.to_yaml(spec), "missing": _short(missing), "extra": _short(extra), "wrong": _short(wrong)})
    return expected


def _short(d, n=12):
    items = sorted(d.items())[:n]
    return "{" + ", ".join("%r: %r" % kv for kv in items) + (", ..." if len(d) > n else "") + "}"


def loops_with_two_iterations(case):
    """some index variable has extent >= 2 (a loop can run twice)"""
    return any(v >= 2 for v in case["extents"].values())


def coords_outside_extent(t, limits):
    """coordinates (also of zero-valued / empty elements) of model tensor t outside [0, limit) or non-integral; limits per rank id"""
    bad = []

    def rec(f, lvl, pre):
        if lvl == len(t.rank_ids) or not isinstance(f, M.Fiber):
            return
        lim = limits[lvl]
        for c, p in f:
            ok = not isinstance(c, tuple) and c == int(c) and 0 <= c < lim
            if not ok:
                bad.append(pre + (c,))
            rec(p, lvl + 1, pre + (c,))
    rec(t.root, 0, ())
    return bad
