"""
Cross-reference of the metrics part of an emitted program (C12): walks the AST in program order, Einsum section by
section, and checks that whatever the dump consumes was produced during collection.
"""
import ast


class XrefError(Exception):
    def __init__(self, kind, msg):
        super().__init__(msg)
        self.kind = kind


def _call(node):
    """(object name, attribute) of a call of the form NAME.attr(...) or (None, fname) for NAME(...)"""
    if isinstance(node, ast.Call):
        f = node.func
        if isinstance(f, ast.Attribute) and isinstance(f.value, ast.Name):
            return f.value.id, f.attr
        if isinstance(f, ast.Name):
            return None, f.id
    return None, None


def _const(n):
    return n.value if isinstance(n, ast.Constant) else None


class Section:
    def __init__(self, prefix):
        self.prefix = prefix
        self.registered = set()        # (rank, type)
        self.consumable = set()
        self.produced = set()          # files produced by filterTrace
        self.fiber_traces = set()      # names passed to <fiber>.trace(...)
        self.objects = {}              # var -> dict(cls, fed, in_header)
        self.seen_loop = False
        self.ended = False
        self.consumed_files = []
        self.kinds = set()

    def files(self):
        return {"%s-%s-%s.csv" % (self.prefix, r, t) for r, t in self.registered}


def analyse(text):
    """returns the list of sections (with statistics); raises XrefError on the first inconsistency"""
    tree = ast.parse(text)
    sections = []
    cur = [None]

    def calls_in(stmt):
        out = [n for n in ast.walk(stmt) if isinstance(n, ast.Call)]
        return out

    def strings_in(stmt):
        return [n.value for n in ast.walk(stmt) if isinstance(n, ast.Constant) and isinstance(n.value, str)]

    def visit(stmts, depth):
        for st in stmts:
            if isinstance(st, ast.For):
                sec = cur[0]
                if sec is not None and not sec.ended:
                    sec.seen_loop = True
                elif sec is not None and sec.ended:
                    pass
                handle(st.iter, depth, st)
                visit(st.body, depth + 1)
                continue
            if isinstance(st, ast.If):
                handle(st.test, depth, st)
                visit(st.body, depth)
                visit(st.orelse, depth)
                continue
            handle(st, depth, st)

    def handle(node, depth, stmt):
        sec = cur[0]
        for c in calls_in(node):
            o, a = _call(c)
            if o == "Metrics" and a == "beginCollect":
                if sec is not None and not sec.ended:
                    raise XrefError("begin-twice", "Metrics.beginCollect while collection %r is still open" % sec.prefix)
                if depth != 0:
                    raise XrefError("begin-in-loop", "Metrics.beginCollect inside a loop")
                sec = Section(_const(c.args[0]) if c.args else None)
                cur[0] = sec
                sections.append(sec)
                continue
            if sec is None:
                if o in ("Metrics", "Traffic", "Compute") and a not in ("dump",):
                    raise XrefError("outside-section", "%s.%s before any beginCollect" % (o, a))
                continue
            if o == "Metrics" and a == "endCollect":
                if sec.ended:
                    raise XrefError("end-twice", "Metrics.endCollect called twice for %r" % sec.prefix)
                if depth != 0:
                    raise XrefError("end-in-loop", "Metrics.endCollect inside a loop")
                sec.ended = True
            elif o == "Metrics" and a == "trace":
                kw = {k.arg: _const(k.value) for k in c.keywords}
                rt = (_const(c.args[0]), kw.get("type_"))
                if sec.seen_loop or sec.ended:
                    raise XrefError("late-registration", "Metrics.trace%r registered after the loop nest started" % (rt,))
                sec.registered.add(rt)
                if kw.get("consumable"):
                    sec.consumable.add(rt)
            elif o == "Metrics" and a == "consumeTrace":
                rt = (_const(c.args[0]), _const(c.args[1]))
                if rt not in sec.consumable:
                    raise XrefError("consume-unregistered", "Metrics.consumeTrace%r has no consumable registration" % (rt,))
                if sec.ended:
                    raise XrefError("consume-after-end", "Metrics.consumeTrace%r after endCollect" % (rt,))
            elif a == "trace" and o not in ("Metrics", None):
                if c.args:
                    sec.fiber_traces.add(_const(c.args[0]))
            elif o is None and a in ("LeaderFollowerIntersector", "SkipAheadIntersector", "TwoFingerIntersector"):
                tgt = stmt.targets[0].id if isinstance(stmt, ast.Assign) and isinstance(stmt.targets[0], ast.Name) else None
                sec.objects[tgt] = {"cls": a, "fed": False, "in_header": not sec.seen_loop and not sec.ended}
            elif a == "addTraces" and o in sec.objects:
                if sec.ended:
                    raise XrefError("fed-after-end", "%s.addTraces after endCollect" % o)
                sec.objects[o]["fed"] = True
            elif a == "getNumIntersects":
                if o not in sec.objects:
                    raise XrefError("intersector-unknown", "%s.getNumIntersects(): no such intersector was created in this section" % o)
                ob = sec.objects[o]
                if not ob["in_header"]:
                    raise XrefError("intersector-late", "%s was not created between beginCollect and the first loop" % o)
                if not ob["fed"]:
                    raise XrefError("intersector-unfed", "%s.getNumIntersects() but %s.addTraces was never called" % (o, o))
                sec.kinds.add("intersector")
            elif o == "Traffic" and a == "filterTrace":
                vals = [_const(x) for x in c.args]
                if len(vals) == 3:
                    for x in vals[:2]:
                        check_file(sec, x, "filterTrace input")
                    sec.produced.add(vals[2])
                    sec.kinds.add("filter")
        # consumed file names: any *.csv string in the dump part that is not the output of a filterTrace in this statement
        if sec is not None and sec.ended:
            outs = set()
            for c in calls_in(node):
                o, a = _call(c)
                if o == "Traffic" and a == "filterTrace" and len(c.args) == 3:
                    outs.add(_const(c.args[2]))
                    for x in c.args[:2]:
                        outs.add(_const(x))      # already checked above
            for s_ in strings_in(node):
                if s_.endswith(".csv") and s_ not in outs:
                    check_file(sec, s_, "dump")
                    sec.kinds.add("traces" if isinstance(stmt, ast.Assign) and isinstance(stmt.targets[0], ast.Name)
                                  and stmt.targets[0].id == "traces" else "numIters/other")

    def check_file(sec, fn, where):
        if fn in sec.files() or fn in sec.produced:
            sec.consumed_files.append(fn)
            return
        raise XrefError("file-not-produced", "%s consumes %r, which no registration of section %r (%s...) or earlier filter step produces"
                        % (where, fn, sec.prefix, sorted(sec.files())[:4]))

    visit(tree.body, 0)
    for sec in sections:
        if not sec.ended:
            raise XrefError("never-ended", "collection %r is never closed" % sec.prefix)
        for r, t in sorted(sec.registered, key=repr):
            if isinstance(t, str) and t.startswith("eager_") and t not in sec.fiber_traces:
                raise XrefError("eager-unfed", "eager trace %r is registered for rank %r but no <fiber>.trace(%r) statement exists" % (t, r, t))
    return sections
