"""
Reference model of the HiFiber (fibertree) API surface that teaal emits.

Written from the API as the emitted code uses it (fibertree itself is not
available offline).  Semantics and the decisions taken where the real library
could not be consulted are listed in DESIGN.md section 3.2.

A Fiber is a dict coordinate -> payload iterated in sorted coordinate order;
a leaf payload is a mutable Payload box; a Tensor is rank ids + root.
"""
import collections
import copy

STATS = collections.Counter()


def reset_stats():
    STATS.clear()


class ModelError(Exception):
    """the emitted program used the API in a way that is wrong under the model"""


class Unsupported(Exception):
    """the emitted program used a feature the model does not implement (case is skipped)"""


class Payload:
    __slots__ = ("v",)

    def __init__(self, v=0):
        self.v = v.v if isinstance(v, Payload) else v

    @staticmethod
    def val(x):
        return x.v if isinstance(x, Payload) else x

    def __iadd__(self, o):
        STATS["update"] += 1
        self.v = self.v + Payload.val(o)
        return self

    def __ilshift__(self, o):
        STATS["update"] += 1
        self.v = Payload.val(o)
        return self

    def __add__(self, o):
        return Payload(self.v + Payload.val(o))
    __radd__ = __add__

    def __mul__(self, o):
        return Payload(self.v * Payload.val(o))
    __rmul__ = __mul__

    def __eq__(self, o):
        return self.v == Payload.val(o)

    def __hash__(self):
        return hash(self.v)

    def __repr__(self):
        return "P(%r)" % (self.v,)


class FiberBase:
    """anything iterable as (coord, payload) in increasing coordinate order"""

    def __and__(self, other):
        _need_fiber(other, "&")
        return Lazy(lambda: _isect(self, other), ("and", self, other))

    def __or__(self, other):
        _need_fiber(other, "|")
        return Lazy(lambda: _union(self, other), ("or", self, other))

    def project(self, trans_fn, interval=None):
        def gen():
            items = [(trans_fn(c), p) for c, p in self]
            items.sort(key=lambda cp: cp[0])
            for c, p in items:
                if interval is not None and not (interval[0] <= c < interval[1]):
                    continue
                yield c, p
        return Lazy(gen, ("project", self))

    def prune(self, trans_fn):
        def gen():
            for i, (c, p) in enumerate(self):
                if trans_fn(i, c, p):
                    yield c, p
        return Lazy(gen, ("prune", self))


def _need_fiber(x, op):
    if not isinstance(x, FiberBase):
        raise ModelError("operand of %s is %s, not a fiber" % (op, type(x).__name__))


class Lazy(FiberBase):
    def __init__(self, genf, desc):
        self.genf = genf
        self.desc = desc

    def __iter__(self):
        return self.genf()

    def default(self):
        d = self.desc
        if d[0] == "and":
            return (d[1].default(), d[2].default())
        if d[0] == "nary":
            return tuple(x.default() for x in d[1])
        if d[0] == "or":
            return ("", d[1].default(), d[2].default())
        if d[0] in ("project", "prune", "range"):
            return d[1].default()
        if d[0] == "populate":
            return (d[1].default(), d[2].default())
        raise ModelError("no default")


class Fiber(FiberBase):
    def __init__(self, coords=None, payloads=None, depth_below=None):
        self.d = {}
        # number of ranks below this fiber (0 = leaf payloads); None = unknown
        self.below = depth_below
        if coords is not None:
            for c, p in zip(coords, payloads):
                self.d[c] = p

    @staticmethod
    def fromLazy(lazy):
        _need_fiber(lazy, "fromLazy")
        f = Fiber()
        below = None
        for c, p in lazy:
            f.d[c] = p
            if isinstance(p, Fiber) and p.below is not None:
                below = p.below + 1
            elif isinstance(p, Payload):
                below = 0
        f.below = below
        f.lazy_default = lazy.default if hasattr(lazy, "default") else None
        return f

    @staticmethod
    def intersection(*args, style=None):
        """payloads nested in argument order: a & (b & (c ...))"""
        for a in args:
            _need_fiber(a, "Fiber.intersection")
        if len(args) < 2:
            raise ModelError("Fiber.intersection of %d fibers" % len(args))
        STATS["Fiber.intersection"] += 1
        nested = args[-1]
        for a in reversed(args[:-1]):
            nested = a & nested
        return nested

    def default(self):
        ld = getattr(self, "lazy_default", None)
        if ld is not None:
            return ld()
        if self.below is None:
            raise ModelError("unknown fiber depth")
        return Fiber(depth_below=self.below - 1) if self.below > 0 else Payload(0)

    def __iter__(self):
        for c in sorted(self.d):
            yield c, self.d[c]

    def __len__(self):
        return len(self.d)

    def getCoords(self):
        return sorted(self.d)

    def __lshift__(self, other):
        _need_fiber(other, "<<")

        def gen():
            for c, p in other:
                yield c, (self.getPayloadRef(c), p)
        return Lazy(gen, ("populate", self, other))

    def getPayloadRef(self, *coords, trace=None):
        f = self
        for c in coords:
            if not isinstance(f, Fiber):
                raise ModelError("getPayloadRef past leaf")
            if c not in f.d:
                f.d[c] = f.default()
            f = f.d[c]
        return f

    def getPayload(self, *coords, trace=None):
        STATS["getPayload"] += 1
        f = self
        n = len(coords)
        for i, c in enumerate(coords):
            if not isinstance(f, Fiber):
                raise ModelError("getPayload past leaf")
            if c not in f.d:
                if f.below is None:
                    raise ModelError("unknown fiber depth in getPayload")
                left = f.below - (n - 1 - i)
                if left < 0:
                    raise ModelError("getPayload past leaf")
                return Fiber(depth_below=left - 1) if left > 0 else Payload(0)
            f = f.d[c]
        return f

    def iterRangeShapeRef(self, start, end, step=1):
        if step <= 0:
            raise ModelError("iterRangeShapeRef step %r" % (step,))

        def gen():
            c = start
            while c < end:
                yield c, self.getPayloadRef(c)
                c += step
        return Lazy(gen, ("range", self))

    def trace(self, *a, **k):
        STATS["fiber.trace"] += 1

    def __repr__(self):
        return "F{" + ", ".join("%r: %r" % cp for cp in self) + "}"


def _isect(a, b):
    ia, ib = iter(a), iter(b)
    try:
        ca, pa = next(ia)
        cb, pb = next(ib)
        while True:
            if ca == cb:
                yield ca, (pa, pb)
                ca, pa = next(ia)
                cb, pb = next(ib)
            elif ca < cb:
                ca, pa = next(ia)
            else:
                cb, pb = next(ib)
    except StopIteration:
        return


def _union(a, b):
    da, db = a.default, b.default
    ia, ib = iter(a), iter(b)
    ea = next(ia, None)
    eb = next(ib, None)
    while ea is not None or eb is not None:
        if eb is None or (ea is not None and ea[0] < eb[0]):
            yield ea[0], ("A", ea[1], db())
            ea = next(ia, None)
        elif ea is None or eb[0] < ea[0]:
            yield eb[0], ("B", da(), eb[1])
            eb = next(ib, None)
        else:
            yield ea[0], ("AB", ea[1], eb[1])
            ea = next(ia, None)
            eb = next(ib, None)


class Tensor:
    def __init__(self, rank_ids=None, name="", shape=None, root=None):
        self.rank_ids = list(rank_ids or [])
        self.name = name
        self.shape = list(shape) if shape is not None else None
        if shape is not None and len(shape) != len(self.rank_ids):
            raise ModelError("shape %r does not match rank ids %r" % (shape, self.rank_ids))
        if root is not None:
            self.root = root
        elif not self.rank_ids:
            self.root = Payload(0)
        else:
            self.root = Fiber(depth_below=len(self.rank_ids) - 1)

    # -- I/O helpers for the harness
    @staticmethod
    def fromDict(rank_ids, d, name=""):
        """d: {coord-tuple: value}"""
        t = Tensor(rank_ids=rank_ids, name=name)
        if not rank_ids:
            t.root = Payload(d.get((), 0))
            return t
        for cs in sorted(d):
            v = d[cs]
            f = t.root
            for c in cs[:-1]:
                f = f.getPayloadRef(c)
            f.d[cs[-1]] = Payload(v)
        return t

    def toDict(self, keep_zero=False):
        out = {}
        if not self.rank_ids:
            if not isinstance(self.root, Payload):
                raise ModelError("rank-0 tensor with non-payload root")
            v = Payload.val(self.root)
            if v != 0 or keep_zero:
                out[()] = v
            return out

        def rec(f, pre, lvl):
            if not isinstance(f, Fiber):
                raise ModelError("non-fiber above leaf of %s" % (self.rank_ids,))
            for c, p in f:
                if lvl == len(self.rank_ids) - 1:
                    if not isinstance(p, Payload):
                        raise ModelError("non-payload at leaf of %s: %r" % (self.rank_ids, p))
                    if p.v != 0 or keep_zero:
                        out[pre + (c,)] = p.v
                else:
                    rec(p, pre + (c,), lvl + 1)
        rec(self.root, (), 0)
        return out

    def getRoot(self):
        return self.root

    def getRankIds(self):
        return list(self.rank_ids)

    def setRankIds(self, rank_ids):
        STATS["setRankIds"] += 1
        if len(rank_ids) != len(self.rank_ids):
            raise ModelError("setRankIds arity %r -> %r" % (self.rank_ids, rank_ids))
        self.rank_ids = list(rank_ids)

    @staticmethod
    def fromFiber(rank_ids=None, fiber=None, shape=None, name=""):
        STATS["fromFiber"] += 1
        if isinstance(fiber, Lazy):
            raise ModelError("fromFiber of lazy fiber")
        t = Tensor(rank_ids=rank_ids, name=name, shape=shape, root=fiber)
        _check_depth(fiber, len(rank_ids))
        return t

    def _items(self):
        """list of (coord-tuple, leaf Payload)"""
        out = []
        n = len(self.rank_ids)

        def rec(f, pre, lvl):
            if lvl == n:
                if not isinstance(f, Payload):
                    raise ModelError("tensor %r deeper than its rank ids" % (self.rank_ids,))
                out.append((pre, f))
                return
            if not isinstance(f, Fiber):
                raise ModelError("tensor %r shallower than its rank ids" % (self.rank_ids,))
            for c, p in f:
                rec(p, pre + (c,), lvl + 1)
        rec(self.root, (), 0)
        return out

    def _build(self, rank_ids, items, merge=False, shape=None):
        t = Tensor(rank_ids=rank_ids, name=self.name, shape=shape)
        for cs, p in items:
            if not cs:
                t.root = Payload(p)
                continue
            f = t.root
            for c in cs[:-1]:
                f = f.getPayloadRef(c)
            if cs[-1] in f.d:
                if not merge:
                    raise ModelError("duplicate coordinate %r building %r" % (cs, rank_ids))
                f.d[cs[-1]].v = f.d[cs[-1]].v + Payload.val(p)
            else:
                f.d[cs[-1]] = Payload(p)
        return t

    def swizzleRanks(self, rank_ids):
        STATS["swizzleRanks"] += 1
        if sorted(rank_ids) != sorted(self.rank_ids) or len(set(rank_ids)) != len(rank_ids):
            raise ModelError("swizzle %r -> %r" % (self.rank_ids, rank_ids))
        perm = [self.rank_ids.index(r) for r in rank_ids]
        items = [(tuple(cs[i] for i in perm), p) for cs, p in self._items()]
        shape = [self.shape[i] for i in perm] if self.shape is not None else None
        return self._build(rank_ids, items, shape=shape)

    def _split(self, depth, partfn):
        """partfn(sorted coords of a fiber, fiber) -> list of (upper coord, [coords])"""
        if not (0 <= depth < len(self.rank_ids)):
            raise ModelError("split depth %d of %r" % (depth, self.rank_ids))
        rid = self.rank_ids[depth]
        new_ids = self.rank_ids[:depth] + [rid + ".1", rid + ".0"] + self.rank_ids[depth + 1:]
        shape = None
        if self.shape is not None:
            shape = self.shape[:depth] + [self.shape[depth], self.shape[depth]] + self.shape[depth + 1:]
        t = Tensor(rank_ids=new_ids, name=self.name, shape=shape)

        def rec(f, lvl):
            nf = Fiber(depth_below=len(new_ids) - 1 - lvl)
            if lvl == depth:
                for up, cs in partfn(sorted(f.d), f):
                    lower = Fiber(depth_below=nf.below - 1)
                    for c in cs:
                        lower.d[c] = copy.deepcopy(f.d[c])
                    if up in nf.d:
                        raise ModelError("duplicate partition coordinate")
                    nf.d[up] = lower
                return nf
            for c, p in f:
                nf.d[c] = rec(p, lvl + 1)
            return nf
        t.root = rec(self.root, 0)
        return t

    def splitUniform(self, step, depth=0, pre_halo=0, post_halo=0):
        if not isinstance(step, int) or isinstance(step, bool) or step <= 0:
            raise ModelError("splitUniform step %r" % (step,))
        if pre_halo < 0 or post_halo < 0:
            raise ModelError("negative halo")
        STATS["splitUniform"] += 1

        def partfn(coords, f):
            parts = {}
            for c in coords:
                # partitions s (multiples of step, s >= 0) with s - pre <= c < s + step + post
                lo = c - step - post_halo  # s > lo
                hi = c + pre_halo          # s <= hi
                s = (int(lo // step) + 1) * step
                if s < 0:
                    s = 0
                while s <= hi:
                    parts.setdefault(s, []).append(c)
                    s += step
            if len(parts) >= 2:
                STATS["splitUniform>=2"] += 1
            if (pre_halo or post_halo) and any(
                    sum(1 for cs in parts.values() if c in cs) > 1 for c in coords):
                STATS["halo-shared"] += 1
            return sorted(parts.items())
        return self._split(depth, partfn)

    def splitEqual(self, size, depth=0, pre_halo=0, post_halo=0):
        if pre_halo or post_halo:
            raise Unsupported("halo on splitEqual")
        if not isinstance(size, int) or isinstance(size, bool) or size <= 0:
            raise ModelError("splitEqual size %r" % (size,))
        STATS["splitEqual"] += 1

        def partfn(coords, f):
            if len(coords) > size:
                STATS["splitEqual>=2"] += 1
            return [(coords[i], coords[i:i + size]) for i in range(0, len(coords), size)]
        return self._split(depth, partfn)

    def splitNonUniform(self, splits, depth=0, pre_halo=0, post_halo=0):
        if pre_halo or post_halo:
            raise Unsupported("halo on splitNonUniform")
        if isinstance(splits, FiberBase):
            bounds = [c for c, _ in splits]
        else:
            bounds = list(splits)
        if bounds != sorted(bounds):
            raise ModelError("splitNonUniform boundaries not sorted")
        STATS["splitNonUniform"] += 1
        if len(bounds) >= 2:
            STATS["splitNonUniform>=2"] += 1

        def partfn(coords, f):
            parts = {}
            for c in coords:
                b = None
                for x in bounds:
                    if x <= c:
                        b = x
                    else:
                        break
                if b is not None:
                    parts.setdefault(b, []).append(c)
            return sorted(parts.items())
        return self._split(depth, partfn)

    def flattenRanks(self, depth=0, levels=1, coord_style="tuple"):
        n = len(self.rank_ids)
        if depth < 0 or levels < 1 or depth + levels >= n:
            raise ModelError("flatten depth/levels out of range: depth=%r levels=%r of %r" % (depth, levels, self.rank_ids))
        STATS["flatten:" + coord_style] += 1
        ids = self.rank_ids
        new_ids = ids[:depth] + ["".join(ids[depth:depth + levels + 1])] + ids[depth + levels + 1:]
        items = []
        for cs, p in self._items():
            grp = cs[depth:depth + levels + 1]
            if coord_style == "tuple":
                flat = ()
                for g in grp:
                    flat += g if isinstance(g, tuple) else (g,)
                nc = flat
            elif coord_style == "absolute":
                nc = grp[-1]
            else:
                raise ModelError("coord_style " + coord_style)
            items.append((cs[:depth] + (nc,) + cs[depth + levels + 1:], p))
        shape = None
        if self.shape is not None:
            grp = self.shape[depth:depth + levels + 1]
            shape = self.shape[:depth] + [grp[-1] if coord_style == "absolute" else tuple(grp)] + self.shape[depth + levels + 1:]
        return self._build(new_ids, items, merge=(coord_style == "absolute"), shape=shape)

    def mergeRanks(self, depth=0, levels=1, coord_style="absolute"):
        return self.flattenRanks(depth, levels, coord_style)

    def unflattenRanks(self, depth=0, levels=1):
        if not (0 <= depth < len(self.rank_ids)) or levels < 1:
            raise ModelError("unflatten depth/levels out of range")
        STATS["unflatten"] += 1
        ids = self.rank_ids
        new_ids = ids[:depth] + [ids[depth] + ".%d" % i for i in range(levels + 1)] + ids[depth + 1:]
        items = []
        for cs, p in self._items():
            c = cs[depth]
            if not isinstance(c, tuple) or len(c) != levels + 1:
                raise ModelError("unflatten of %r with levels %d" % (c, levels))
            items.append((cs[:depth] + tuple(c) + cs[depth + 1:], p))
        shape = None
        if self.shape is not None:
            sd = self.shape[depth]
            shape = self.shape[:depth] + (list(sd) if isinstance(sd, tuple) and len(sd) == levels + 1 else [sd] * (levels + 1)) + self.shape[depth + 1:]
        return self._build(new_ids, items, shape=shape)

    def __repr__(self):
        return "T(%s_%s %r)" % (self.name, "".join(self.rank_ids), self.root)


def _check_depth(f, n):
    if n == 0:
        if not isinstance(f, Payload):
            raise ModelError("rank-0 tensor from non-payload")
        return
    if not isinstance(f, Fiber):
        raise ModelError("fromFiber of %s with %d rank ids" % (type(f).__name__, n))
    f.below = n - 1
    for c, p in f:
        _check_depth(p, n - 1)


def snapshot(t):
    """hashable deep snapshot of a tensor: (rank ids, sorted items incl. zeros, empty fibers ignored)"""
    return (tuple(t.rank_ids), tuple(sorted(t.toDict(keep_zero=True).items(), key=repr)))
