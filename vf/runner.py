"""
The runner: drives each property's generated-input search with Hypothesis,
shards it over processes, shrinks and buckets failures, handles the
known-findings protocol and writes evidence / replay files.

Exit codes: 0 held on everything explored; 1 + "VIOLATION property=<id> replay=<path>";
2 harness error.
"""
import collections
import importlib
import json
import os
import sys
import time
import traceback

VERIF = os.path.dirname(os.path.dirname(os.path.abspath(__file__)))
DEPS = os.path.join(VERIF, ".deps")
if os.path.isdir(DEPS) and DEPS not in sys.path:
    sys.path.append(DEPS)

from . import spec as S  # noqa: E402


class Violation(Exception):
    """the property is violated by this case"""

    def __init__(self, msg, sig=None, details=None):
        super().__init__(msg)
        self.msg = msg
        self.sig = sig or msg.split(":")[0][:60]
        self.details = details or {}
        self.case = None
        self.part = None


class Skip(Exception):
    """the case is outside what this check decides (counted, not a violation)"""

    def __init__(self, kind, note=""):
        super().__init__(kind + (": " + note if note else ""))
        self.kind = kind
        self.note = note


class Part:
    """one generated-input search: a strategy plus an oracle"""
    name = "main"
    rule = ""

    def strategy(self, tier):
        raise NotImplementedError

    def run_case(self, case):
        """returns dict(nontrivial=bool, classes=[str], note=str?) ; raises Violation / Skip"""
        raise NotImplementedError

    def budget(self, tier):
        """dict(examples=per shard, shards=n, seconds=wall budget per shard)"""
        return {"quick": dict(examples=300, shards=1, seconds=60),
                "thorough": dict(examples=2000, shards=16, seconds=600)}[tier]

    def fixed_cases(self, tier):
        """explicit cases always run (outside Hypothesis)"""
        return []

    def describe(self, case):
        """compact rendering of a case for the evidence samples"""
        if isinstance(case, dict) and "spec" in case:
            d = {"yaml": S.to_yaml(case["spec"])}
            for k in ("extents", "scalars", "sizes", "inputs", "mode"):
                if k in case:
                    d[k] = case[k]
            return d
        return case

    def setup_shard(self, tier, seed, shard):
        pass

    def teardown_shard(self):
        pass


class ShardResult:
    def __init__(self):
        self.evaluations = 0
        self.nontrivial = set()
        self.classes = collections.Counter()
        self.skipped = collections.Counter()
        self.skip_notes = collections.Counter()
        self.excluded = collections.Counter()
        self.samples = []
        self.violations = []      # list of dict(part, msg, sig, case, details)
        self.duplicates = 0
        self.budget_hit = False
        self.wall = 0.0
        self.harness_error = None

    def merge(self, o):
        self.evaluations += o.evaluations
        self.nontrivial |= o.nontrivial
        self.classes.update(o.classes)
        self.skipped.update(o.skipped)
        self.skip_notes.update(o.skip_notes)
        self.excluded.update(o.excluded)
        self.samples.extend(o.samples)
        for v in o.violations:
            if not any(v["sig"] == w["sig"] and v["part"] == w["part"] for w in self.violations):
                self.violations.append(v)
        self.duplicates += o.duplicates
        self.budget_hit = self.budget_hit or o.budget_hit
        self.wall = max(self.wall, o.wall)
        self.harness_error = self.harness_error or o.harness_error


class _Done(Exception):
    pass


MAX_BUCKETS = 4
SHRINK_SECONDS = {"quick": 25, "thorough": 60}


def _derive_seed(seed, shard, rnd, part_name):
    import hashlib
    h = hashlib.sha1(("%d/%d/%d/%s" % (seed, shard, rnd, part_name)).encode()).digest()
    return int.from_bytes(h[:6], "big")


def run_shard(check_mod, part_index, tier, seed, shard, excluded_names):
    """runs one shard of one part; returns a ShardResult (picklable)"""
    import hypothesis
    from hypothesis import given, settings, HealthCheck, Phase, Verbosity

    mod = importlib.import_module(check_mod)
    part = mod.PARTS[part_index]
    # a part may carry its own, weaker oracle for the class of a known finding (then the class is not dropped there)
    preds = [(n, mod.EXCLUDED[n]) for n in excluded_names if n not in getattr(part, "handles_excluded", ())]
    res = ShardResult()
    t0 = time.time()
    budget = part.budget(tier)
    deadline = t0 + budget["seconds"]
    try:
        part.setup_shard(tier, seed, shard)
    except Exception:
        res.harness_error = traceback.format_exc()
        return res
    # the time budget starts when the shard is ready (worker start-up on a loaded machine must not eat it), and a
    # minimum number of cases is always run, so that a slow machine makes a run smaller, never vacuous
    deadline = time.time() + budget["seconds"]
    min_cases = max(5, budget["examples"] // 20)
    ran = [0]

    def evaluate(case, in_search):
        for n, pred in preds:
            if pred(case):
                res.excluded[n] += 1
                return None
        try:
            info = part.run_case(case)
        except Skip as s:
            res.skipped[s.kind] += 1
            if s.note:
                res.skip_notes[s.kind + ": " + s.note[:100]] += 1
            return None
        res.evaluations += 1
        h = S.sha(case)
        for c in info.get("classes", []):
            res.classes[c] += 1
        if info.get("nontrivial"):
            if h not in res.nontrivial:
                res.nontrivial.add(h)
                if len(res.samples) < 3:
                    d = part.describe(case)
                    if info.get("note"):
                        d = {"case": d, "observed": info["note"]}
                    res.samples.append(d)
        return info

    try:
        # fixed cases first (shard 0 only)
        if shard == 0:
            for case in part.fixed_cases(tier):
                try:
                    evaluate(case, False)
                except Violation as v:
                    v.case, v.part = case, part.name
                    if not any(w["sig"] == v.sig for w in res.violations):
                        res.violations.append(dict(part=part.name, msg=v.msg, sig=v.sig, case=case, details=v.details))

        seen_sigs = set(v["sig"] for v in res.violations)
        if hasattr(part, "custom_search"):
            # the part drives Hypothesis itself (rule-based state machines for histories)
            for rnd in range(MAX_BUCKETS):
                v = part.custom_search(tier, _derive_seed(seed, shard, rnd, part.name), res, deadline, seen_sigs)
                if v is None:
                    break
                seen_sigs.add(v.sig)
                res.violations.append(dict(part=part.name, msg=v.msg, sig=v.sig, case=v.case, details=v.details))
                if time.time() > deadline:
                    break
            raise _Done()
        for rnd in range(MAX_BUCKETS):
            failed = {}
            first_fail = [None]

            @hypothesis.seed(_derive_seed(seed, shard, rnd, part.name))
            @settings(max_examples=budget["examples"], database=None, deadline=None,
                      derandomize=False, report_multiple_bugs=False, print_blob=False,
                      verbosity=Verbosity.quiet,
                      phases=[Phase.generate, Phase.shrink],
                      suppress_health_check=[HealthCheck.too_slow, HealthCheck.data_too_large,
                                             HealthCheck.large_base_example, HealthCheck.filter_too_much])
            @given(part.strategy(tier))
            def prop(case):
                h = S.sha(case)
                if h in failed:
                    raise failed[h]
                now = time.time()
                if first_fail[0] is not None:
                    if now - first_fail[0] > SHRINK_SECONDS[tier]:
                        return
                elif now > deadline and ran[0] >= min_cases:
                    res.budget_hit = True
                    return
                ran[0] += 1
                try:
                    evaluate(case, True)
                except Violation as v:
                    if v.sig in seen_sigs:
                        res.duplicates += 1
                        return
                    v.case, v.part = case, part.name
                    failed[h] = v
                    if first_fail[0] is None:
                        first_fail[0] = now
                    raise

            try:
                prop()
            except Violation as v:
                seen_sigs.add(v.sig)
                res.violations.append(dict(part=part.name, msg=v.msg, sig=v.sig, case=v.case, details=v.details))
                if time.time() > deadline:
                    break
                continue
            break
    except _Done:
        pass
    except Exception:
        res.harness_error = traceback.format_exc()
    finally:
        try:
            part.teardown_shard()
        except Exception:
            pass
    res.wall = time.time() - t0
    return res


def load_findings(prop_id):
    p = os.path.join(VERIF, "known_findings.json")
    if not os.path.exists(p):
        return []
    with open(p) as f:
        data = json.load(f)
    return [e for e in data.get("findings", []) if e["property"] == prop_id]


def write_replay(prop_id, v):
    os.makedirs(os.path.join(VERIF, "replays"), exist_ok=True)
    body = {"property": prop_id, "part": v["part"], "violation": v["msg"], "sig": v["sig"],
            "details": v["details"], "case": v["case"]}
    h = S.sha(body["case"])[:12]
    path = os.path.join(VERIF, "replays", "%s-%s.json" % (prop_id, h))
    with open(path, "w") as f:
        json.dump(body, f, indent=1, default=S._default)
    return path


def replay_case(mod, part_name, case):
    """returns None if the case passes, else the Violation"""
    for part in mod.PARTS:
        if part.name == part_name:
            try:
                part.setup_shard("quick", 0, 0)
                try:
                    part.run_case(case)
                finally:
                    part.teardown_shard()
            except Violation as v:
                return v
            except Skip as s:
                return None
            return None
    raise KeyError(part_name)


def run_check(prop_id, tier, seed):
    t0 = time.time()
    check_mod = "vf.checks." + prop_id.lower()
    mod = importlib.import_module(check_mod)
    findings = load_findings(prop_id)
    excluded_names = sorted(set(e["excluded_class"] for e in findings
                                if e["status"] == "known" and e.get("excluded_class")))
    for n in excluded_names:
        if n not in getattr(mod, "EXCLUDED", {}):
            print("harness error: unknown excluded class", n)
            return 2

    # import the compiler once in the parent so that forked shard processes share it
    from . import execute as _x  # noqa: F401
    import teaal.trans.hifiber  # noqa: F401
    import teaal.parse  # noqa: F401

    total = ShardResult()
    per_part = {}
    jobs = []
    for pi, part in enumerate(mod.PARTS):
        b = part.budget(tier)
        for k in range(b["shards"]):
            jobs.append((check_mod, pi, tier, seed, k, excluded_names))
    nproc = min(len(jobs), int(os.environ.get("VERIF_PROCS", "16" if tier == "thorough" else "8")))
    results = []
    if nproc <= 1:
        for j in jobs:
            results.append((j, run_shard(*j)))
    else:
        import multiprocessing as mp
        from concurrent.futures import ProcessPoolExecutor
        ctx = mp.get_context("fork")
        with ProcessPoolExecutor(max_workers=nproc, mp_context=ctx) as ex:
            futs = [(j, ex.submit(run_shard, *j)) for j in jobs]
            for j, f in futs:
                results.append((j, f.result()))
    if os.environ.get("VERIF_DEBUG"):
        print("shard walls:", ["%s/%d:%.0fs" % (mod.PARTS[j[1]].name, j[4], r.wall) for j, r in results])
    for j, r in results:
        total.merge(r)
        pname = mod.PARTS[j[1]].name
        pp = per_part.setdefault(pname, ShardResult())
        pp.merge(r)

    if total.harness_error:
        print("HARNESS ERROR in", prop_id)
        print(total.harness_error)
        return 2

    # known / fixed findings: replay pinned cases
    status = 0
    known_lines = []
    for e in findings:
        with open(os.path.join(VERIF, e["replay"])) as f:
            pinned = json.load(f)
        try:
            v = replay_case(mod, pinned.get("part", "main"), pinned["case"])
        except Exception:
            print("HARNESS ERROR replaying", e["replay"])
            traceback.print_exc()
            return 2
        if e["status"] == "known":
            if v is not None:
                known_lines.append("KNOWN-FINDING: property=%s %s [%s]" % (prop_id, e["summary"], e["id"]))
            else:
                known_lines.append("note: known finding %s no longer reproduces on this tree" % e["id"])
        else:
            if v is not None:
                print("VIOLATION property=%s replay=%s" % (prop_id, os.path.join(VERIF, e["replay"])))
                print("  (regression of fixed finding %s: %s)" % (e["id"], v.msg))
                status = 1
    for line in known_lines:
        print(line)

    for v in total.violations:
        path = write_replay(prop_id, v)
        print("VIOLATION property=%s replay=%s" % (prop_id, path))
        print("  part=%s %s" % (v["part"], v["msg"][:600]))
        status = 1

    write_evidence(mod, prop_id, tier, seed, total, per_part, time.time() - t0, findings)
    nt = len(total.nontrivial)
    print("%s tier=%s seed=%d evaluations=%d distinct_nontrivial=%d skipped=%s excluded=%s violations=%d wall=%.1fs%s" % (
        prop_id, tier, seed, total.evaluations, nt, dict(total.skipped), dict(total.excluded),
        len(total.violations), time.time() - t0, " (time budget hit: inconclusive beyond this point)" if total.budget_hit else ""))
    if status == 0 and (total.evaluations < 1 or nt < 2):
        print("HARNESS ERROR: the search was vacuous (evaluations=%d, non-trivial=%d)" % (total.evaluations, nt))
        return 2
    return status


def write_evidence(mod, prop_id, tier, seed, total, per_part, wall, findings):
    # (sensitivity runs against a mutated copy of the repository write their evidence elsewhere)
    evdir = os.environ.get("VERIF_EVIDENCE_DIR") or os.path.join(VERIF, "evidence")
    os.makedirs(evdir, exist_ok=True)
    rule = " || ".join("[%s] %s" % (p.name, p.rule) for p in mod.PARTS)
    cov = {
        "evaluations": total.evaluations,
        "distinct_nontrivial": len(total.nontrivial),
        "rule": rule,
        "samples": total.samples[:8],
        "classes": dict(sorted(total.classes.items())),
        "skipped": dict(total.skipped),
        "skip_reasons": dict(total.skip_notes.most_common(12)),
        "excluded_by_finding": dict(total.excluded),
        "rejected_by_compiler": total.skipped.get("rejected_by_compiler", 0),
        "duplicate_failures_suppressed": total.duplicates,
        "time_budget_hit": total.budget_hit,
        "parts": {n: {"evaluations": r.evaluations, "distinct_nontrivial": len(r.nontrivial)}
                  for n, r in per_part.items()},
        "known_findings": [e["id"] + ":" + e["status"] for e in findings],
        "exhaustive": False,
    }
    ev = {
        "property_id": prop_id,
        "tier": tier,
        "seed": seed,
        "level": getattr(mod, "LEVEL", "exploration"),
        "coverage": cov,
        "assumptions": list(getattr(mod, "ASSUMPTIONS", [])),
        "wall_s": round(wall, 2),
        "violations": len(total.violations),
    }
    path = os.path.join(evdir, prop_id + ".json")
    with open(path, "w") as f:
        json.dump(ev, f, indent=1, default=S._default)
