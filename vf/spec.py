"""
Specification values and their YAML rendering.

A specification is a plain, JSON-serialisable dict (so that a shrunk failure
can be written to a replay file and re-run without Hypothesis):

spec = {
  "decl":   [[name, [RANK, ...]], ...]                     declaration, in order
  "exprs":  [ {"out": [name, [iexpr, ...]],
               "terms": [ {"take": None | int,
                           "factors": [ {"t": name, "idx": [iexpr, ...]} | {"v": name} ]} ]} ]
  "rank_order":   {name: [RANK, ...]}                       (may be empty / partial)
  "loop_order":   {out: [RANK, ...]}
  "partitioning": {out: [[key, [directive, ...]], ...]}     key = "K" or "(M, K0)"
  "spacetime":    {out: {"space": [...], "time": [...], "opt": "slip"?}}
  "extra":        {"architecture": ..., "bindings": ..., "format": ...}   raw YAML-able values
  "omit":         [section names to leave out entirely even when empty dict would be rendered]
}
iexpr = [[coeff, var], ...]   with var lower-case, coeff a non-zero integer
The compiler is always handed *text* (as a user would), produced by to_yaml().
"""
import copy
import json
import hashlib


# --------------------------------------------------------------------------
# accessors


def decl_of(spec):
    return {n: list(rs) for n, rs in spec["decl"]}


def out_name(expr):
    return expr["out"][0]


def iexpr_vars(ie):
    return [v for _, v in ie]


def iexpr_is_plain(ie):
    return len(ie) == 1 and ie[0][0] == 1


def term_tensors(term):
    return [f for f in term["factors"] if "t" in f]


def term_scalars(term):
    return [f["v"] for f in term["factors"] if "v" in f]


def expr_vars(expr):
    """index variables of an Einsum: output first (as written), then RHS in textual order"""
    out = []
    for ie in expr["out"][1]:
        for v in iexpr_vars(ie):
            if v not in out:
                out.append(v)
    for term in expr["terms"]:
        for f in term["factors"]:
            if "t" in f:
                for ie in f["idx"]:
                    for v in iexpr_vars(ie):
                        if v not in out:
                            out.append(v)
    return out


def expr_tensors(expr):
    return [f["t"] for term in expr["terms"] for f in term["factors"] if "t" in f]


def expr_scalars(expr):
    out = []
    for term in expr["terms"]:
        for v in term_scalars(term):
            if v not in out:
                out.append(v)
    return out


def outputs(spec):
    return [out_name(e) for e in spec["exprs"]]


def order_of(spec, name):
    """the rank order a tensor is stored in: rank-order if given, else declaration"""
    ro = spec.get("rank_order") or {}
    if name in ro:
        return list(ro[name])
    return list(decl_of(spec)[name])


def tensor_var(spec, name):
    return name + "_" + "".join(order_of(spec, name))


def user_inputs(spec):
    """tensors that are read before (or without) being produced: the user supplies them"""
    produced = set()
    need = []
    for e in spec["exprs"]:
        for t in expr_tensors(e):
            if t not in produced and t not in need:
                need.append(t)
        produced.add(out_name(e))
    return need


def symbolic_sizes(spec):
    """symbolic partition sizes named in the mapping"""
    out = []
    for _, parts in (spec.get("partitioning") or {}).items():
        for _, dirs in parts:
            for d in dirs:
                inner = d[d.index("(") + 1:d.rindex(")")].strip()
                if not inner:
                    continue
                sz = inner.split(".")[-1].strip()
                if d.startswith("follow"):
                    continue
                if not sz.isdigit() and sz not in out:
                    out.append(sz)
    return out


# --------------------------------------------------------------------------
# rendering


def render_iexpr(ie):
    parts = []
    for c, v in ie:
        if c == 1:
            parts.append(v)
        else:
            parts.append("%d * %s" % (c, v))
    return " + ".join(parts)


def render_access(name, idx):
    return "%s[%s]" % (name, ", ".join(render_iexpr(ie) for ie in idx))


def render_term(term):
    facs = []
    for f in term["factors"]:
        if "t" in f:
            facs.append(render_access(f["t"], f["idx"]))
        else:
            facs.append(f["v"])
    if term.get("take") is None:
        return " * ".join(facs)
    return "take(" + ", ".join(facs) + ", %d)" % term["take"]


def render_expr(expr):
    return render_access(*expr["out"]) + " = " + " + ".join(render_term(t) for t in expr["terms"])


_PLAIN_OK = set("abcdefghijklmnopqrstuvwxyzABCDEFGHIJKLMNOPQRSTUVWXYZ0123456789_-./()+*=[], ")


def _scalar(x):
    if x is None:
        return "null"
    if isinstance(x, bool):
        return "true" if x else "false"
    if isinstance(x, (int, float)):
        return repr(x)
    s = str(x)
    ok = s and all(ch in _PLAIN_OK for ch in s) and s[0] not in "[]{},*&!|>%@`-? " and not s.endswith(" ") \
        and s not in ("null", "true", "false", "yes", "no", "on", "off", "~") \
        and not _looks_numeric(s)
    if ok:
        return s
    return json.dumps(s)


def _looks_numeric(s):
    try:
        float(s)
        return True
    except ValueError:
        return s.lower() in ("inf", ".inf", "-.inf", ".nan", "nan")


def _flow(x):
    """flow-style rendering for a list of scalars"""
    return "[" + ", ".join(_flow_scalar(e) for e in x) + "]"


def _flow_scalar(x):
    s = _scalar(x)
    # inside flow sequences, commas and brackets must be quoted
    if isinstance(x, str) and not s.startswith('"') and any(ch in s for ch in ",[]{}"):
        return json.dumps(x)
    return s


def dump_yaml(x, ind=0):
    """small block-style YAML emitter for dict / list / scalar values"""
    pad = " " * ind
    out = []
    if isinstance(x, dict):
        if not x:
            return pad + "{}\n"
        for k, v in x.items():
            key = _key(k)
            if isinstance(v, dict) and v:
                out.append(pad + key + ":\n" + dump_yaml(v, ind + 2))
            elif isinstance(v, list) and v and all(not isinstance(e, (dict, list)) for e in v) and not _force_block(k):
                out.append(pad + key + ": " + _flow(v) + "\n")
            elif isinstance(v, list) and v:
                out.append(pad + key + ":\n" + dump_yaml(v, ind))
            elif isinstance(v, list):
                out.append(pad + key + ": []\n")
            elif isinstance(v, dict):
                out.append(pad + key + ": {}\n")
            else:
                out.append(pad + key + ": " + _scalar(v) + "\n")
        return "".join(out)
    if isinstance(x, list):
        for e in x:
            if isinstance(e, dict) and e:
                body = dump_yaml(e, ind + 2)
                out.append(pad + "- " + body[ind + 2:])
            elif isinstance(e, list):
                out.append(pad + "- " + _flow(e) + "\n")
            else:
                out.append(pad + "- " + _scalar(e) + "\n")
        return "".join(out)
    return pad + _scalar(x) + "\n"


def _force_block(k):
    return k in ("expressions",)


def _key(k):
    s = str(k)
    if all(ch in _PLAIN_OK for ch in s) and s and s[0] not in "[]{},*&!|>%@`-? ":
        return s
    return json.dumps(s)


def to_struct(spec):
    """the python structure corresponding to the YAML document"""
    doc = {}
    es = {"declaration": {n: list(rs) for n, rs in spec["decl"]},
          "expressions": [render_expr(e) for e in spec["exprs"]]}
    doc["einsum"] = es
    m = {}
    omit = set(spec.get("omit") or [])
    if spec.get("rank_order") and "rank-order" not in omit:
        m["rank-order"] = {n: list(rs) for n, rs in spec["rank_order"].items()}
    if spec.get("partitioning") and "partitioning" not in omit:
        m["partitioning"] = {o: {k: list(ds) for k, ds in parts} for o, parts in spec["partitioning"].items()}
    if spec.get("loop_order") and "loop-order" not in omit:
        m["loop-order"] = {o: list(rs) for o, rs in spec["loop_order"].items()}
    if spec.get("spacetime") and "spacetime" not in omit:
        m["spacetime"] = copy.deepcopy(spec["spacetime"])
    if m:
        doc["mapping"] = m
    for k, v in (spec.get("extra") or {}).items():
        doc[k] = v
    return doc


def to_yaml(spec):
    doc = to_struct(spec)
    out = []
    for k, v in doc.items():
        out.append(k + ":\n" + dump_yaml(v, 2))
    return "".join(out)


# --------------------------------------------------------------------------
# hashing / (de)serialisation


def canon(x):
    return json.dumps(x, sort_keys=True, default=_default)


def _default(o):
    if isinstance(o, (set, frozenset)):
        return sorted(o)
    if isinstance(o, tuple):
        return list(o)
    return repr(o)


def sha(x):
    return hashlib.sha1(canon(x).encode()).hexdigest()


def strip_mapping(spec, keep=("rank_order",)):
    """the same Einsum with every mapping section except `keep` removed"""
    s = copy.deepcopy(spec)
    for k in ("rank_order", "loop_order", "partitioning", "spacetime"):
        if k not in keep:
            s[k] = {}
    s["extra"] = {}
    return s
