"""
Structural conversion of teaal.hifiber nodes to Python ast nodes (by node structure, never via gen()),
and normalisation of both sides by flattening chains of one associative operator (C09).
"""
import ast

from teaal.hifiber import *   # noqa: F401,F403

BIN = {OAdd: ast.Add, OSub: ast.Sub, OMul: ast.Mult, ODiv: ast.Div, OFDiv: ast.FloorDiv, OMod: ast.Mod,
       OAnd: ast.BitAnd, OOr: ast.BitOr, OLtLt: ast.LShift}
CMP = {OEqEq: ast.Eq, OLt: ast.Lt, OIn: ast.In, ONotIn: ast.NotIn}


class Unconvertible(Exception):
    pass


def num(v):
    if isinstance(v, (int, float)) and not isinstance(v, bool) and v < 0:
        return ast.UnaryOp(ast.USub(), ast.Constant(-v))
    return ast.Constant(v)


def E(e):
    if isinstance(e, EVar):
        if e.name in ("None", "True", "False"):
            return ast.Constant({"None": None, "True": True, "False": False}[e.name])
        return ast.Name(e.name, ast.Load())
    if isinstance(e, EInt):
        return num(e.int)
    if isinstance(e, EFloat):
        inf = ast.Call(ast.Name("float", ast.Load()), [ast.Constant("inf")], [])
        if e.float == float("inf"):
            return inf
        if e.float == -float("inf"):
            return ast.UnaryOp(ast.USub(), inf)
        return num(e.float)
    if isinstance(e, EBool):
        return ast.Constant(e.bool)
    if isinstance(e, EString):
        return ast.Constant(e.string)
    if isinstance(e, EParens):
        return E(e.expr)
    if isinstance(e, EBinOp):
        if type(e.op) in BIN:
            return ast.BinOp(E(e.expr1), BIN[type(e.op)](), E(e.expr2))
        if type(e.op) in CMP:
            return ast.Compare(E(e.expr1), [CMP[type(e.op)]()], [E(e.expr2)])
        raise Unconvertible("operator " + type(e.op).__name__)
    if isinstance(e, EAccess):
        return ast.Subscript(E(e.obj), E(e.ind), ast.Load())
    if isinstance(e, EField):
        return ast.Attribute(ast.Name(e.obj, ast.Load()), e.field, ast.Load())
    if isinstance(e, EList):
        return ast.List([E(x) for x in e.list], ast.Load())
    if isinstance(e, ETuple):
        return ast.Tuple([E(x) for x in e.elems], ast.Load())
    if isinstance(e, EDict):
        return ast.Dict([E(k) for k in e.dict], [E(v) for v in e.dict.values()])
    if isinstance(e, EFunc):
        pos, kw = args(e.args)
        return ast.Call(ast.Name(e.name, ast.Load()), pos, kw)
    if isinstance(e, EMethod):
        pos, kw = args(e.args)
        return ast.Call(ast.Attribute(E(e.obj), e.name, ast.Load()), pos, kw)
    if isinstance(e, ELambda):
        return ast.Lambda(ast.arguments([], [ast.arg(a) for a in e.args], None, [], [], None, []), E(e.body))
    if isinstance(e, EComp):
        return ast.ListComp(E(e.elem), [ast.comprehension(ast.Name(e.var, ast.Store()), E(e.iter), [], 0)])
    raise Unconvertible(type(e).__name__)


def args(a):
    pos, kw = [], []
    for x in a:
        if isinstance(x, AJust):
            if kw:
                raise Unconvertible("positional argument after keyword argument")
            pos.append(E(x.expr))
        elif isinstance(x, AParam):
            kw.append(ast.keyword(x.name, E(x.expr)))
        else:
            raise Unconvertible(type(x).__name__)
    return pos, kw


def A(a, ctx):
    if isinstance(a, AVar):
        return ast.Name(a.name, ctx)
    if isinstance(a, AAccess):
        return ast.Subscript(E(a.obj), E(a.ind), ctx)
    if isinstance(a, AField):
        return ast.Attribute(ast.Name(a.obj, ast.Load()), a.field, ctx)
    raise Unconvertible(type(a).__name__)


def P(p):
    if isinstance(p, PVar):
        return ast.Name(p.var, ast.Store())
    if isinstance(p, PTuple):
        return ast.Tuple([P(x) for x in p.payloads], ast.Store())
    raise Unconvertible(type(p).__name__)


def Sx(s):
    if isinstance(s, SBlock):
        out = []
        for x in s.stmts:
            out.extend(Sx(x))
        return out
    if isinstance(s, SAssign):
        return [ast.Assign([A(s.assn, ast.Store())], E(s.expr))]
    if isinstance(s, SIAssign):
        return [ast.AugAssign(A(s.assn, ast.Store()), BIN[type(s.op)](), E(s.expr))]
    if isinstance(s, SExpr):
        return [ast.Expr(E(s.expr))]
    if isinstance(s, SFor):
        return [ast.For(P(s.payload), E(s.expr), Sx(s.stmt), [])]
    if isinstance(s, SIf):
        orelse = Sx(s.else_) if s.else_ is not None else []
        for c, b in reversed(s.elifs):
            orelse = [ast.If(E(c), Sx(b), orelse)]
        return [ast.If(E(s.if_[0]), Sx(s.if_[1]), orelse)]
    if isinstance(s, SReturn):
        return [ast.Return(E(s.expr))]
    if isinstance(s, SFunc):
        return [ast.FunctionDef(s.name, ast.arguments([], [ast.arg(a.name) for a in s.args], None, [], [], None, []), Sx(s.body), [])]
    raise Unconvertible(type(s).__name__)


ASSOC = (ast.Add, ast.Mult, ast.BitAnd, ast.BitOr)


class Flat(ast.NodeTransformer):
    """normalise chains of one associative operator into a left-nested canonical chain"""

    def visit_BinOp(self, n):
        self.generic_visit(n)
        if isinstance(n.op, ASSOC):
            items = []

            def collect(x):
                if isinstance(x, ast.BinOp) and type(x.op) is type(n.op):
                    collect(x.left)
                    collect(x.right)
                else:
                    items.append(x)
            collect(n)
            out = items[0]
            for it in items[1:]:
                out = ast.BinOp(out, type(n.op)(), it)
            return out
        return n


def norm_stmts(stmts):
    m = ast.Module(list(stmts), [])
    m = Flat().visit(m)
    return ast.dump(m, annotate_fields=True, include_attributes=False)


def norm_expr(e):
    return ast.dump(Flat().visit(ast.Expression(e)), annotate_fields=True, include_attributes=False)


def compare_program(hifiber_stmt, text):
    """returns (equal, dump_of_tree, dump_of_text)"""
    t1 = norm_stmts(Sx(hifiber_stmt))
    body = ast.parse(text).body
    # a block without statements prints as nothing
    t2 = norm_stmts(body)
    return t1 == t2, t1, t2


def mixed_nesting(tree):
    """number of binary operations having an operand that is a binary operation of a different operator"""
    n = 0
    for node in ast.walk(tree):
        if isinstance(node, ast.BinOp):
            for ch in (node.left, node.right):
                if isinstance(ch, ast.BinOp) and type(ch.op) is not type(node.op):
                    n += 1
    return n
