"""Regenerates /verif/MANIFEST.json from the table below (python -m vf.mkmanifest)."""
import json
import os

VERIF = os.path.dirname(os.path.dirname(os.path.abspath(__file__)))

TRUST = ("Trusted base: the reference HiFiber model vf/hfmodel.py (fibertree is not available offline; decisions in "
         "DESIGN.md 3.2), the dense evaluator vf/dense.py, Hypothesis 6.168, CPython 3.12. Bounds of the generators are "
         "stated in the evidence file's rule.")

CHECKS = {
    "C01": dict(
        technique="property-based testing (Hypothesis): generated Einsum x loop/rank-order x inputs, executed on a reference model, dense-evaluation oracle + all-permutations metamorphic relation",
        text="Generated-input search: thousands of random Einsums/mappings/inputs per run are compiled by the real compiler, "
             "executed on a reference model of the HiFiber API and compared with an independent dense evaluation; all loop-order "
             "permutations of an Einsum are additionally required to agree. Finds mis-compilations of un-pinned combinations; "
             "never establishes absence.",
        design="4/C01"),
    "C02": dict(
        technique="property-based testing (Hypothesis): generated shape-partitioning stacks x loop orders x inputs, executed on a reference model; dense-evaluation oracle + metamorphic comparison with the unpartitioned compile",
        text="Generated-input search over Einsums x uniform_shape/nway_shape stacks (1-3 levels, literal/symbolic, non-dividing and "
             "oversized sizes) x loop orders over the levels (ordered and arbitrary) x inputs; the emitted program is executed on the "
             "reference model and must equal dense evaluation and the unpartitioned compile, under the declared name/rank ids.",
        design="4/C02"),
    "C03": dict(
        technique="property-based testing (Hypothesis): generated occupancy stacks / flatten tuples x leaders x loop orders x inputs, executed on a reference model; dense-evaluation oracle + unmapped-compile comparison; shipped accelerator specs as structured seeds",
        text="Generated-input search over product Einsums x uniform_occupancy stacks (any leader holding the rank, 1-2 levels, optionally "
             "beneath a shape split) x flatten() of 2-3 ranks (raw or bottom shape levels) x occupancy split of the flattened rank x "
             "level-ordered loop orders x inputs, plus the shipped accelerator mappings with drawn sizes; executed on the reference model "
             "and compared with dense evaluation and the unmapped compile.",
        design="4/C03"),
    "C04": dict(
        technique="property-based testing (Hypothesis): generated affine Einsums (stride/dilation/negative coefficients/2-D/three-variable/subsampling) x loop orders incl. the tensor's own rank x follow() partitioning x consistent extents; executed on a reference model on drawn and all-dense inputs; dense-evaluation oracle + out-of-extent/fractional-coordinate invariant",
        text="Generated-input search over affine-index Einsums with small integer coefficients (positive and negative), loop orders that "
             "loop over the accessed tensor's own rank, and 1-2 levels of shape partitioning with follow(); every case is executed on the "
             "reference model on a drawn sparse input and on an all-dense input and compared with dense evaluation (missing or duplicated "
             "contributions change a value because all values are positive); every created output coordinate must be integral and inside "
             "the extent. Five root causes found on the unchanged tree are listed as known findings with narrow excluded classes; two were fixed. "
             "Inside the class of known finding F-C04-5 (two partition levels with halo: double counting) a one-sided oracle still runs: with "
             "strictly positive inputs no output element may be smaller than its dense evaluation.",
        design="4/C04"),
    "C05": dict(
        technique="property-based testing (Hypothesis): generated cascades of 2-4 Einsums with per-Einsum mappings, executed whole on a reference model vs chained dense evaluation; differential text comparison of every Einsum compiled after every prefix vs compiled alone (temporaries renumbered)",
        text="Generated-input search over cascades (each Einsum may read declared inputs and earlier outputs; shape/occupancy partitioning, "
             "loop and rank orders per Einsum): (a) whole programs are executed on the reference model and every intermediate and final "
             "output, looked up under its declared-or-rank-order name, is compared with chained dense evaluation; (b) for every j <= i the "
             "text emitted for Einsum i after compiling Einsums j..i-1 must equal its stand-alone compilation up to temporary numbering "
             "(plain and spacetime modes).",
        design="4/C05"),
    "C06": dict(
        technique="property-based testing (Hypothesis): generated specifications of every family x compilation mode; oracle = ast.parse + flow-sensitive definite-assignment analysis of the emitted text against the user-supplied name set derived from the specification alone",
        text="Generated-input search over all specification families (plain, shape/occupancy partitioning, flattening, affine, cascades) in "
             "plain and spacetime mode plus every shipped YAML in plain and metrics mode; each emitted program must parse and a static, "
             "zero-trip-aware definite-assignment analysis must find every read name bound on every path or supplied by the user "
             "(names derived from the specification value, never from the compiler). Two root causes found on the unchanged tree are "
             "known findings with excluded classes.",
        design="4/C06",
        note="Trusted base: vf/pyscope.py (definite-assignment analysis over Python's own ast), the supplied-name rule stated in the property, Hypothesis, CPython."),
    "C07": dict(
        technique="property-based testing (Hypothesis): generated executable specifications x inputs, executed on a reference model; invariant over the final namespace (name/rank-id agreement, output binding vs dense evaluation, deep snapshot equality of every supplied tensor)",
        text="Generated-input search over every executable specification family; after the emitted program ran on the reference model (which "
             "models aliasing: views share data, transformations copy) the final global namespace is inspected: names must spell rank ids, "
             "outputs must sit under their declared/rank-order names in original coordinates, and every user-supplied tensor object and "
             "name must be unchanged (deep snapshot incl. explicit zeros).",
        design="4/C07"),
    "C09": dict(
        technique="property-based testing (Hypothesis): generated specifications and generated sympy coordinate expressions; round-trip oracle: structural conversion of the HiFiber tree to a Python AST vs ast.parse of the printed text (modulo re-association of one associative operator), plus exact Fraction evaluation of tree, text and source expression",
        text="Generated-input search: (a) for specifications of every family (plain/spacetime; shipped YAMLs also in metrics mode) the "
             "statement tree HiFiber(...).hifiber, converted to a Python AST by node structure, must equal ast.parse of the emitted text "
             "after flattening chains of a single associative operator; (b) sympy expressions derived the way the compiler derives them "
             "(solve, level/halo substitution, isolation) are fed to CoordAccess.build_expr and tree, printed text and the sympy value are "
             "compared structurally and by exact evaluation. Found the missing parentheses of a scaled nway step on the pinned commit (fixed).",
        design="4/C09",
        note="Trusted base: vf/tree2ast.py (node-by-node conversion), Python's ast module, sympy for the reference value, Hypothesis."),
    "C10": dict(
        technique="property-based testing (Hypothesis): generated specifications x generated topological tie-breaks (Kahn's algorithm driven by drawn choices, injected for teaal.ir.flow_graph only); validity predicate over FlowGraph.get_graph()/get_sorted()",
        text="Generated-input search over specifications of every family and over linear extensions of the dependence graph that no hash seed "
             "happens to produce: the hoisting pass is run on drawn tie-breaks and on networkx's own order, and the resulting statement "
             "sequence must be a permutation of the graph's nodes in which every edge goes forward, loops nest as brackets with the "
             "update innermost, and nothing sits above a loop it transitively depends on (shipped accelerator specs also with metrics nodes). "
             "Dependences the graph may have forgotten are checked independently: a statement naming rank R of tensor T follows the "
             "partitioning statement that creates R (derived from the partitioning alone), and whole programs (plain and metrics mode) "
             "compiled under drawn linear extensions must be closed Python and, where executable, compute the dense result.",
        design="4/C10",
        note="Trusted base: the graph returned by FlowGraph.get_graph() as the dependence relation (main part); for the observable part the reference model, dense evaluator and definite-assignment analysis; networkx.descendants, Hypothesis."),
    "C16": dict(
        technique="property-based testing (Hypothesis): generated Einsums x partitionings x loop orders x space/time splits x stamp styles x slip x inputs, executed on a reference model with recording canvas stand-ins; oracle = tensors vs the run without spacetime and dense evaluation + invariants over the recorded call history",
        text="Generated-input search over spacetime mappings of every executable family; the emitted program runs on the reference model "
             "with stand-ins that record createCanvas/addActivity/displayCanvas: tensors must be unchanged by the spacetime section, exactly "
             "one canvas is created before and displayed after the loops, one activity follows every in-place update, point arities match "
             "the displayed tensors, and with level-ordered loops all (space,time) stamps are pairwise distinct.",
        design="4/C16"),
    "C19": dict(
        technique="property-based testing (Hypothesis): generated Einsums x partitionings; differential oracle: text compiled with rank-order / loop-order / partitioning omitted vs the default written out explicitly, the default being computed independently from the specification value",
        text="Generated-input search over Einsums (plain, partitioned, affine, cascades): the text emitted with a mapping section omitted "
             "must be identical to the text emitted with the canonical default written out, where the default (declared rank order; output "
             "ranks then remaining ranks by first appearance with partitioned ranks expanded in place; empty partitioning) is computed "
             "by vf/defaults.py from the specification value. Two deviations found on the pinned commit were fixed (0d7d132). For flatten(), "
             "where the property defines no canonical position, the default the compiler chose is read back from the IR and written out: "
             "the text must not change (idempotence).",
        design="4/C19",
        note="Trusted base: vf/defaults.py (the default as worded in the property), Hypothesis."),
    "C18": dict(
        technique="property-based negative testing (Hypothesis): one injector per stated legality rule introduces exactly that violation at a drawn position into a generated, compiling specification; oracle = ValueError (any other outcome is a violation)",
        text="Generated-input search over instances of each of the stated legality rules: a legal base specification is drawn from the "
             "generators, checked to compile, and one violation is injected at a drawn place (which rank, factor, directive position, "
             "tuple member, Einsum); parsing + HiFiber(...) must raise ValueError. Found two un-refused instances of 'projects into the "
             "output' on the pinned commit (both fixed).",
        design="4/C18",
        note="Trusted base: the injectors (vf/checks/c18.py) produce only instances the rules as stated cover; Hypothesis."),
    "C17": dict(
        technique="property-based testing (Hypothesis): grammar-based generation of structures for the five grammars rendered with random insignificant whitespace; round-trip oracle through the public parser classes and an independent tree extractor; mutation-based near-miss strings with a losslessness oracle",
        text="Generated-input search: (a) structures for Einsum expressions, partitioning directives, rank tuples, spacetime stamps and level "
             "names are rendered with random spaces/tabs, parsed by the public parser classes, read back by an independent extractor and "
             "compared with what was written (level names also through Architecture: num == N+1); (b) mutated and random strings must be "
             "rejected or else be lossless, which decides 'no partial parse' without an independent membership test.",
        design="4/C17",
        note="Trusted base: vf/refparse.py (tree walker by rule names), the renderer in vf/checks/c17.py, Hypothesis."),
    "C11": dict(
        technique="property-based testing (Hypothesis): generated Einsums/mappings paired with constructed architectures, bindings and formats (and the shipped accelerator specs with drawn sizes), executed on a reference model with inert metrics stand-ins; differential oracle metrics-mode vs plain-mode vs dense evaluation",
        text="Generated-input search over a constructed family of architectures (1-3 levels, DRAM, buffet/cache, compute, the three "
             "intersector types incl. leader-follower with any co-iterated leader, sequencer), bindings (lazy/eager, evict-on) and formats "
             "for generated product Einsums and cascades, plus the shipped accelerator specifications: the metrics-mode program must "
             "compute exactly the tensors of the plain-mode program and of dense evaluation, and must leave every user-supplied input variable "
             "holding what was supplied (merger swizzles of flattened tensors). Found and fixed the payload-order defect of leader-follower "
             "intersection (8641d3c) and two eager-binding defects on flattened / discordant tensors (c55612e, 125b8da); one known finding "
             "(F-C11-3).",
        design="4/C11"),
    "C12": dict(
        technique="property-based testing (Hypothesis): generated Einsums/mappings with constructed architectures/bindings/formats; oracle = static cross-reference of the emitted metrics text (registrations, fiber traces, filter steps, consumed files, intersector objects) in program order per Einsum section",
        text="Generated-input search over the constructed metrics family (lazy/eager buffets, caches, every intersector type, sequencers, "
             "partitioned mappings) and the shipped specifications: the emitted text is walked in program order and everything the dump "
             "consumes (trace files, consumable traces, intersector models) must have been registered / produced / created and fed "
             "earlier in the same Einsum's section, with collection opened and closed exactly once around the loop nest.",
        design="4/C12",
        note="Trusted base: vf/metrics_xref.py over Python's ast; the file-name rule <prefix>-<rank>-<type>.csv stated in the property."),
    "C13": dict(
        technique="property-based testing over histories (Hypothesis): generated sequences of Einsums x configurations x space/time splits x component-binding sets, applied step by step to real Program/Hardware/Fusion objects; validity predicate (legal ordered partition) evaluated after every step and on the emitted metrics[\"blocks\"] literal",
        text="Generated histories of 1-6 Einsums (two hardware configurations, loop orders, space/time splits, bindings drawn from a pool of "
             "functional components, schedules mostly repeated so that the component condition decides) are fed Einsum by Einsum to the real "
             "Fusion object; after every step the blocks must list the Einsums so far exactly once in order, and no block may mix "
             "configurations, temporal prefixes or reuse a functional component. Maximal fusion is not demanded. Found and fixed the "
             "unrecorded components of a block's first Einsum (237e9e7).",
        design="4/C13",
        note="Trusted base: the block predicate of vf/checks/c13.py recomputed from the specification value; Hypothesis."),
    "C14": dict(
        technique="property-based testing (Hypothesis): generated cascades with constructed multi-configuration architectures (instance counts, frequencies, bandwidths), executed with stand-in models returning distinct primes as exact Fractions; oracle = independent re-computation of every component time and of the sum-of-max roll-up, compared as functions under perturbation of each component time",
        text="Generated-input search over cascades of 1-4 Einsums on two constructed hardware configurations (own clocks, bandwidths and "
             "instance counts NAME[0..N]) and the shipped accelerator specifications: the dump is executed exactly (Fractions over distinct "
             "primes); each component time must be count/(rate x instances) with the architecture read independently, and the emitted "
             "metrics[\"time\"] expression must equal the sum over blocks of the bottleneck component as a function - every timed entry "
             "is in turn made dominant, so a missing, duplicated or misplaced entry is seen even when it is not the bottleneck. An intersector's "
             "operation count must be the sum of the attempts on all ranks it is bound to.",
        design="4/C14",
        note="Trusted base: vf/archread.py, the per-class count rules in vf/checks/c14.py (taken from the property statement), the stand-ins of vf/standins.py, Hypothesis."),
    "C15": dict(
        technique="stateful property-based testing (Hypothesis RuleBasedStateMachine): histories of parse / compile-from-existing-objects / compile-fresh operations over a drawn pool of specifications; invariants after every step: deep snapshot equality of the parsed objects, text equality with the first compilation and with a first compilation in a fresh interpreter (fork server)",
        text="Model-based stateful search: Hypothesis' rule-based state machine drives parse(i), compile(i), compile_next, recompile and "
             "compile_fresh(i) over a pool of 3-5 generated and shipped specifications (plain, partitioned, flattened over a shared rank "
             "alphabet, metrics with eager buffets); after every step the five parsed objects must equal their snapshots, every "
             "compilation must succeed and reproduce both the first text from the same objects and the text a pristine interpreter "
             "emits (a process that imported the compiler but never compiled forks a child per reference). Found and fixed the "
             "mutation of the caller's Bindings (dc7ba0c).",
        design="4/C15",
        note="Trusted base: deep equality of vars(obj) as 'observably equal'; vf/freshserver.py for the pristine-interpreter reference; Hypothesis stateful engine."),
    "C08": dict(
        technique="property-based testing with sampled schedules (Hypothesis): generated specifications compiled twice in each of 8/32 worker processes started with different PYTHONHASHSEED values; oracle = within-process repeatability + every distinct text closed (definite assignment), executed on a reference model vs dense evaluation, metrics texts cross-referenced and compared on their multiset of trace registrations",
        text="Generated-input search over the specification families whose compilation iterates sets (several partitioned ranks, occupancy, "
             "one or two flattenings per tensor incl. dynamic ones, cascades, metrics) x sampled interpreter hash seeds: worker processes "
             "with distinct PYTHONHASHSEED values compile each specification twice; texts must repeat within a process, a specification "
             "must compile under all sampled seeds or none, and every distinct text must be closed and compute the dense result on the "
             "same inputs. Hash seeds are sampled (2^32 cannot be enumerated); C10 complements this by drawing arbitrary linear extensions.",
        design="4/C08",
        note="Trusted base: the reference model and dense evaluator, vf/pyscope.py, vf/seedworker.py; 8/32 sampled hash seeds per run."),
}

NOT_APPLICABLE = {}


def build():
    checks = []
    for pid in sorted(CHECKS):
        c = CHECKS[pid]
        checks.append({
            "property_id": pid,
            "quick_cmd": "/venv/bin/python -m vf.run %s --tier quick" % pid,
            "thorough_cmd": "/venv/bin/python -m vf.run %s --tier thorough" % pid,
            "evidence_file": "/verif/evidence/%s.json" % pid,
            "replay_cmd_template": "/venv/bin/python -m vf.replay {path}",
            "engine": "vf",
            "level_claimed": {"category": "exploration", "text": c["text"], "design_ref": "DESIGN.md section " + c["design"]},
            "level_note": c.get("note", TRUST),
            "technique": c["technique"],
        })
    all_ids = ["C%02d" % i for i in range(1, 20)]
    na = []
    for pid in all_ids:
        if pid not in CHECKS:
            na.append({"property_id": pid,
                       "reason": NOT_APPLICABLE.get(pid, "check not built yet (work in progress); planned as property-based test, see DESIGN.md section 4")})
    return {
        "version": 1,
        "setup_cmd": "./setup.sh",
        "hooks": {
            "guard": "FPSG_UIUC_TEAAL_COMPILER_VERIF",
            "enable": "no hooks are needed: every observation point is public API (str(HiFiber(...)), .hifiber, FlowGraph, Fusion); checks import teaal from /repo's working tree (VERIF_REPO overrides)",
            "baseline_off_cmd": "cd /repo && /venv/bin/python -m pytest -q -p no:cacheprovider --timeout=900",
            "source_commits": [],
            "add_only": True,
        },
        "engines": [{"name": "vf", "path": "/verif/vf", "serves_properties": sorted(CHECKS),
                     "kind_free_text": "Hypothesis-driven property-based testing framework: spec generators, reference HiFiber model, dense evaluator, static analysers, sharded runner with shrinking, bucketing, replay files and known-findings protocol"}],
        "checks": checks,
        "not_applicable": na,
        "notes": "All checks: cd /verif && /venv/bin/python -m vf.run <Cxx> --tier quick|thorough; VERIF_SEED selects the seed; exit 0/1/2 = held/violation/harness error.",
    }


if __name__ == "__main__":
    with open(os.path.join(VERIF, "MANIFEST.json"), "w") as f:
        json.dump(build(), f, indent=1)
    print("MANIFEST.json written:", len(CHECKS), "checks")
