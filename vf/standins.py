"""
Recording stand-ins for the parts of the HiFiber API that do not compute tensors:
Metrics / Traffic / Format / Compute / *Intersector / canvas functions.

Every symbolic quantity read from a stand-in (a traffic count, an op count, an
intersection count) is a deterministic, distinct prime (exact Fractions are
used from then on), so the metrics dictionary a program computes is an exact,
collision-free function of the call signatures.
"""
from fractions import Fraction


def _primes():
    n = 101
    while True:
        if all(n % p for p in range(2, int(n ** 0.5) + 1)):
            yield n
        n += 2


class Recorder:
    def __init__(self):
        self.events = []          # (kind, path, args, kwargs)
        self.canvases = []
        self.displayed = []
        self.table = {}
        self._gen = _primes()
        self.objects = 0

    def value(self, path):
        if path not in self.table:
            self.table[path] = Fraction(next(self._gen))
        return self.table[path]

    def log(self, kind, path, args=(), kwargs=None):
        self.events.append((kind, path, args, kwargs or {}))


def _r(x):
    if isinstance(x, Sym):
        return "<" + x._p + ">"
    if isinstance(x, (list, tuple)):
        return "[" + ",".join(_r(e) for e in x) + "]"
    if isinstance(x, dict):
        return "{" + ",".join(_r(k) + ":" + _r(v) for k, v in x.items()) + "}"
    if hasattr(x, "rank_ids"):
        return "T(%s_%s)" % (getattr(x, "name", ""), "".join(x.rank_ids))
    return repr(x)


class Sym:
    """inert symbolic value: attribute / call / index chains build a path; arithmetic turns it into a prime Fraction"""

    def __init__(self, rec, path):
        object.__setattr__(self, "_rec", rec)
        object.__setattr__(self, "_p", path)

    def __getattr__(self, a):
        if a.startswith("__"):
            raise AttributeError(a)
        return Sym(self._rec, self._p + "." + a)

    def __call__(self, *args, **kwargs):
        self._rec.log("call", self._p, args, kwargs)
        sig = self._p + "(" + ",".join([_r(a) for a in args] + ["%s=%s" % (k, _r(v)) for k, v in kwargs.items()]) + ")"
        return Sym(self._rec, sig)

    def __getitem__(self, k):
        return Sym(self._rec, self._p + "[" + _r(k) + "]")

    def copy(self):
        return self

    def _v(self):
        return self._rec.value(self._p)

    def __add__(self, o):
        return self._v() + _num(o)
    __radd__ = __add__

    def __sub__(self, o):
        return self._v() - _num(o)

    def __rsub__(self, o):
        return _num(o) - self._v()

    def __mul__(self, o):
        return self._v() * _num(o)
    __rmul__ = __mul__

    def __truediv__(self, o):
        return self._v() / _num(o)

    def __rtruediv__(self, o):
        return _num(o) / self._v()

    def __lt__(self, o):
        return self._v() < _num(o)

    def __gt__(self, o):
        return self._v() > _num(o)

    def __le__(self, o):
        return self._v() <= _num(o)

    def __ge__(self, o):
        return self._v() >= _num(o)

    def __eq__(self, o):
        return isinstance(o, Sym) and o._p == self._p

    def __hash__(self):
        return hash(self._p)

    def __iter__(self):
        raise TypeError("stand-in value is not iterable: " + self._p)

    def __repr__(self):
        return "Sym(%s)" % self._p


def _num(o):
    return o._v() if isinstance(o, Sym) else o


class Canvas:
    def __init__(self, rec, tensors):
        self.rec = rec
        self.tensors = [list(t.rank_ids) if hasattr(t, "rank_ids") else None for t in tensors]
        self.names = [getattr(t, "name", None) for t in tensors]
        self.acts = []
        self.updates_at_act = []
        self.loop_vars = []

    def addActivity(self, *points, spacetime=None, **kw):
        from . import hfmodel
        self.acts.append((points, spacetime))
        self.updates_at_act.append(hfmodel.STATS["update"])
        # the emitted program runs at module level: its loop variables are globals of the namespace it was exec'ed in
        ns = getattr(self.rec, "ns", None)
        watch = getattr(self.rec, "watch", None)
        if ns is not None and watch:
            self.loop_vars.append({k: ns[k] for k in watch if k in ns})


def api(rec):
    def createCanvas(*tensors):
        from . import hfmodel
        c = Canvas(rec, tensors)
        c.updates_at_create = hfmodel.STATS["update"]
        rec.canvases.append(c)
        rec.log("createCanvas", "createCanvas", tensors)
        return c

    def displayCanvas(c, *a, **k):
        from . import hfmodel
        rec.displayed.append(c)
        rec.updates_at_display = hfmodel.STATS["update"]
        rec.log("displayCanvas", "displayCanvas", (c,))

    def mk_intersector(cls):
        def ctor(*a, **k):
            rec.objects += 1
            rec.log("construct", cls, a, k)
            return Sym(rec, "%s#%d" % (cls, rec.objects))
        return ctor

    g = {
        "createCanvas": createCanvas,
        "displayCanvas": displayCanvas,
        "Metrics": Sym(rec, "Metrics"),
        "Traffic": Sym(rec, "Traffic"),
        "Format": Sym(rec, "Format"),
        "Compute": Sym(rec, "Compute"),
    }
    for cls in ("LeaderFollowerIntersector", "SkipAheadIntersector", "TwoFingerIntersector"):
        g[cls] = mk_intersector(cls)
    return g


API_NAMES = ["Tensor", "Fiber", "createCanvas", "displayCanvas", "Metrics", "Traffic", "Format", "Compute",
             "LeaderFollowerIntersector", "SkipAheadIntersector", "TwoFingerIntersector"]
