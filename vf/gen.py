"""
Hypothesis strategies for specifications and run-time inputs (DESIGN.md 3.1).
All random choices are Hypothesis draws, so cases shrink and replay.
"""
import copy
import itertools

from hypothesis import strategies as st

from . import spec as S

RANKS = "IJKMNPQ"                 # single letters, no digits (partition levels K1, K0 never collide)
IN_NAMES = "ABCDEFGH"
OUT_NAMES = "ZYXT"
SCALARS = ["alpha", "beta", "gamma"]


def plain(v):
    return [[1, v]]


@st.composite
def subset(draw, items, min_size=0):
    items = list(items)
    flags = [draw(st.booleans()) for _ in items]
    out = [x for x, f in zip(items, flags) if f]
    while len(out) < min_size:
        rest = [x for x in items if x not in out]
        out.append(draw(st.sampled_from(rest)))
    return [x for x in items if x in out]


@st.composite
def einsum_plain(draw, names, out, max_vars=4, max_terms=3, max_factors=3, allow_take=True,
                 allow_scalars=True, allow_output_only=True, allow_rank0=True, ranks=RANKS, avail=None):
    """
    One Einsum in the plain grammar.  names: iterator of fresh input-tensor names.
    avail: optional {name: [ranks]} of already declared tensors that may be re-used as factors.
    returns (expr, new_decls [[name, ranks]...])
    """
    nv = draw(st.sampled_from([0, 1, 1, 2, 2, 2, 3, 3, 3, 4, 4][0 if allow_rank0 else 1:])) if max_vars >= 4 else draw(st.integers(0 if allow_rank0 else 1, max_vars))
    vars_ = draw(st.permutations(list(ranks)))[:nv]
    vars_ = [v.lower() for v in vars_]
    # term rank set
    if allow_output_only and nv and draw(st.integers(0, 4)) == 0:
        term_vars = draw(subset(vars_, min_size=0))
    else:
        term_vars = list(vars_)
    out_only = [v for v in vars_ if v not in term_vars]
    out_vars = out_only + draw(subset(term_vars))
    out_vars = draw(st.permutations(out_vars)) if out_vars else []
    decls = [[out, [v.upper() for v in out_vars]]]
    nterms = draw(st.sampled_from([1, 1, 1, 2, 2, 3][:max(1, 2 * max_terms)])) if max_terms > 1 else 1
    nterms = min(nterms, max_terms)
    terms = []
    for _ in range(nterms):
        nf = draw(st.integers(1, max_factors))
        # assign every rank to one factor first (coverage by construction), then add to others
        owner = [draw(st.integers(0, nf - 1)) for _ in term_vars]
        fr = [[] for _ in range(nf)]
        for v, o in zip(term_vars, owner):
            for k in range(nf):
                if k == o or draw(st.booleans()):
                    fr[k].append(v)
        if term_vars and draw(st.integers(0, 3)) > 0:
            # mostly avoid rank-0 factors when there are ranks to carry
            for k in range(nf):
                if not fr[k]:
                    fr[k].append(draw(st.sampled_from(term_vars)))
        factors = []
        for k in range(nf):
            rs = list(draw(st.permutations(fr[k]))) if fr[k] else []
            if not allow_rank0 and not rs:
                rs = [term_vars[0]] if term_vars else []
            name = next(names)
            decls.append([name, [v.upper() for v in rs]])
            factors.append({"t": name, "idx": [plain(v) for v in rs]})
        if allow_scalars:
            ns = draw(st.sampled_from([0, 0, 0, 1, 2]))
            for sname in SCALARS[:ns]:
                pos = draw(st.integers(0, len(factors)))
                factors.insert(pos, {"v": sname})
        take = None
        # (a take() inside a multi-term sum is known finding F-C01-1: generated rarely, and counted when excluded)
        if allow_take and draw(st.integers(0, 3 if nterms == 1 else 5)) == 0:
            take = draw(st.integers(0, len(factors) - 1))
        terms.append({"take": take, "factors": factors})
    expr = {"out": [out, [plain(v) for v in out_vars]], "terms": terms}
    return expr, decls


@st.composite
def rank_orders(draw, decls, prob=0.5):
    ro = {}
    for n, rs in decls:
        if len(rs) >= 1 and draw(st.booleans()):
            ro[n] = list(draw(st.permutations(rs)))
    return ro


@st.composite
def spec_plain(draw, **kw):
    names = iter(IN_NAMES + "UVW")
    expr, decls = draw(einsum_plain(names, "Z", **kw))
    order = draw(st.permutations(decls))
    spec = {"decl": [list(d) for d in order], "exprs": [expr], "rank_order": draw(rank_orders(decls)),
            "loop_order": {}, "partitioning": {}, "spacetime": {}, "extra": {}}
    vs = [v.upper() for v in S.expr_vars(expr)]
    if vs and draw(st.integers(0, 4)) > 0:
        spec["loop_order"] = {"Z": list(draw(st.permutations(vs)))}
    return spec


# --------------------------------------------------------------------------
# run-time inputs


def all_ranks(spec):
    rs = []
    for _, r in spec["decl"]:
        for x in r:
            if x not in rs:
                rs.append(x)
    for e in spec["exprs"]:
        for v in S.expr_vars(e):
            if v.upper() not in rs:
                rs.append(v.upper())
    return rs


@st.composite
def tensor_data(draw, shape, max_elems=40, classes=None):
    """{coords: value} with positive values; density class drawn"""
    if not shape:
        return {(): draw(st.integers(1, 9))}
    vol = 1
    for n in shape:
        vol *= n
    cls = draw(st.sampled_from(classes or ["empty", "sparse", "half", "half", "dense", "dense", "dense", "dense"]))
    if cls == "empty":
        return {}
    if cls == "dense" and vol <= max_elems:
        vals = draw(st.lists(st.integers(1, 9), min_size=vol, max_size=vol))
        return dict(zip(itertools.product(*[range(n) for n in shape]), vals))
    cap = max(1, min(max_elems, {"sparse": (vol + 3) // 4, "half": (vol + 1) // 2, "dense": vol}[cls]))
    elems = draw(st.lists(st.tuples(st.tuples(*[st.integers(0, n - 1) for n in shape]), st.integers(1, 9)),
                          min_size=0, max_size=cap))
    return {c: v for c, v in elems}


@st.composite
def runtime(draw, spec, max_extent=6, extents=None):
    """extents, scalars, symbolic sizes and input tensors for a specification"""
    from . import execute as X
    decl = S.decl_of(spec)
    if extents is None:
        extents = {r: draw(st.integers(1, max_extent)) for r in all_ranks(spec)}
        if extents and draw(st.integers(0, 7)) > 0:
            extents = {r: max(2, n) for r, n in extents.items()}
    scalars = {}
    for e in spec["exprs"]:
        for v in S.expr_scalars(e):
            if v not in scalars:
                scalars[v] = draw(st.integers(1, 5))
    sizes = {}
    for sname in S.symbolic_sizes(spec):
        sizes[sname] = draw(st.integers(1, max_extent + 2))
    inputs = {}
    for n in S.user_inputs(spec):
        shape = [extents[r] for r in decl[n]]
        inputs[n] = draw(tensor_data(shape))
    return {"extents": extents, "scalars": scalars, "sizes": sizes, "inputs": X.inputs_to_json(inputs)}


@st.composite
def case_of(draw, spec_strategy, max_extent=6):
    spec = draw(spec_strategy)
    rt = draw(runtime(spec, max_extent=max_extent))
    case = {"spec": spec}
    case.update(rt)
    return case


# --------------------------------------------------------------------------
# D_shape: shape-based partitioning (C02)


def input_carried_vars(expr):
    out = []
    for t in expr["terms"]:
        for f in t["factors"]:
            if "t" in f:
                for ie in f["idx"]:
                    for v in S.iexpr_vars(ie):
                        if v not in out:
                            out.append(v)
    return out


def levels_of(rank, n):
    """level names of a rank split by n directives, outermost first"""
    return [rank + str(i) for i in range(n, -1, -1)]


@st.composite
def interleave(draw, groups):
    """random interleaving of several sequences that keeps each sequence's order"""
    groups = [list(g) for g in groups if g]
    out = []
    while groups:
        k = draw(st.integers(0, len(groups) - 1))
        out.append(groups[k].pop(0))
        if not groups[k]:
            groups.pop(k)
    return out


@st.composite
def shape_stack(draw, rank, extent, max_levels=3, conventional_names=False):
    n = draw(st.sampled_from([1, 1, 2, 2, 3][:2 * max_levels - 1]))
    dirs = []
    sizes = {}
    for i in range(n):
        kind = draw(st.sampled_from(["uniform_shape", "uniform_shape", "nway_shape"]))
        val = draw(st.integers(1, extent + 2))
        if draw(st.integers(0, 3)) == 0:
            name = (rank + str(n - 1 - i)) if draw(st.booleans()) else ("sz_" + rank.lower() + str(i))
            sizes[name] = val
            dirs.append("%s(%s)" % (kind, name))
        else:
            dirs.append("%s(%d)" % (kind, val))
    return dirs, sizes


@st.composite
def case_shape(draw, max_extent=6, max_levels=3, **kw):
    kw.setdefault("allow_take", False)
    kw.setdefault("allow_output_only", False)
    spec = draw(spec_plain(**kw))
    expr = spec["exprs"][0]
    rt = draw(runtime(spec, max_extent=max_extent))
    vs = [v.upper() for v in S.expr_vars(expr)]
    cand = [v.upper() for v in input_carried_vars(expr)]
    chosen = draw(subset(cand, min_size=1 if cand else 0))
    parts = []
    groups = []
    for r in vs:
        if r in chosen:
            dirs, sizes = draw(shape_stack(r, rt["extents"][r], max_levels))
            parts.append([r, dirs])
            rt["sizes"].update(sizes)
            groups.append(levels_of(r, len(dirs)))
        else:
            groups.append([r])
    spec["partitioning"] = {"Z": parts} if parts else {}
    mode = draw(st.sampled_from(["omitted", "ordered", "ordered", "scrambled", "scrambled"]))
    flat = [x for g in groups for x in g]
    if mode == "omitted" or not flat:
        spec["loop_order"] = {}
    elif mode == "ordered":
        spec["loop_order"] = {"Z": draw(interleave(groups))}
    else:
        spec["loop_order"] = {"Z": list(draw(st.permutations(flat)))}
    case = {"spec": spec, "lo_mode": mode}
    case.update(rt)
    return case


# --------------------------------------------------------------------------
# D_occ / D_flat: occupancy partitioning and flattening (C03)


def holders(expr, var):
    return [f["t"] for t in expr["terms"] for f in t["factors"] if "t" in f and any(var in S.iexpr_vars(ie) for ie in f["idx"])]


@st.composite
def size_token(draw, name, lo, hi, sizes, prob_symbolic=4):
    val = draw(st.integers(lo, hi))
    if draw(st.integers(0, prob_symbolic - 1)) == 0:
        sizes[name] = val
        return name
    return str(val)


@st.composite
def occ_stack(draw, rank, extent, leaders, sizes, allow_shape=True, base=None):
    """[uniform_shape]? uniform_occupancy{1,2}; returns directive list"""
    base = base or rank
    nshape = draw(st.sampled_from([0, 0, 1])) if allow_shape else 0
    nocc = draw(st.sampled_from([1, 1, 2]))
    n = nshape + nocc
    dirs = []
    for i in range(n):
        nm = base + str(n - 1 - i) if draw(st.booleans()) else "sz_" + base.lower() + str(i)
        if i < nshape:
            dirs.append("uniform_shape(%s)" % draw(size_token(nm, 1, extent + 1, sizes)))
        else:
            dirs.append("uniform_occupancy(%s.%s)" % (draw(st.sampled_from(leaders)), draw(size_token(nm, 1, 4, sizes))))
    return dirs


@st.composite
def case_occ(draw, max_extent=6, **kw):
    kw.setdefault("allow_take", False)
    kw.setdefault("allow_output_only", False)
    kw.setdefault("max_terms", 1)
    spec = draw(spec_plain(**kw))
    expr = spec["exprs"][0]
    rt = draw(runtime(spec, max_extent=max_extent))
    vs = [v.upper() for v in S.expr_vars(expr)]
    cand = [v.upper() for v in input_carried_vars(expr)]
    chosen = draw(subset(cand, min_size=1 if cand else 0))
    parts, groups = [], []
    nocc = 0
    for r in vs:
        if r in chosen:
            if nocc == 0 or draw(st.booleans()):
                dirs = draw(occ_stack(r, rt["extents"][r], holders(expr, r.lower()), rt["sizes"]))
                nocc += 1
            else:
                dirs, sizes = draw(shape_stack(r, rt["extents"][r], 2))
                rt["sizes"].update(sizes)
            parts.append([r, dirs])
            groups.append(levels_of(r, len(dirs)))
        else:
            groups.append([r])
    spec["partitioning"] = {"Z": parts} if parts else {}
    if draw(st.integers(0, 5)) == 0 or not groups:
        spec["loop_order"] = {}
        mode = "omitted"
    else:
        spec["loop_order"] = {"Z": draw(interleave(groups))}
        mode = "ordered"
    case = {"spec": spec, "lo_mode": mode, "family": "occ"}
    case.update(rt)
    return case


@st.composite
def case_flat(draw, max_extent=6, **kw):
    kw.setdefault("allow_take", False)
    kw.setdefault("allow_output_only", False)
    kw.setdefault("max_terms", 1)
    kw.setdefault("allow_rank0", False)
    spec = draw(spec_plain(**kw))
    expr = spec["exprs"][0]
    rt = draw(runtime(spec, max_extent=max_extent))
    vs = [v.upper() for v in S.expr_vars(expr)]
    tens = [f for f in expr["terms"][0]["factors"] if "t" in f and len(f["idx"]) >= 2]
    case = {"spec": spec, "family": "flat"}
    if not tens:
        spec["loop_order"] = {}
        case.update(rt)
        case["lo_mode"] = "omitted"
        return case
    T = draw(st.sampled_from(tens))
    tr = [ie[0][1].upper() for ie in T["idx"]]
    k = draw(st.integers(2, min(3, len(tr))))
    flat = list(draw(st.permutations(tr)))[:k]
    if draw(st.integers(0, 2)) == 0:
        # make the OUTPUT carry every flattened rank, so that it is flattened too and must be unflattened by the footer
        out_name_ = expr["out"][0]
        have = [ie[0][1].upper() for ie in expr["out"][1]]
        for r in flat:
            if r not in have:
                expr["out"][1].append(plain(r.lower()))
                for d in spec["decl"]:
                    if d[0] == out_name_:
                        d[1].append(r)
                if out_name_ in spec["rank_order"]:
                    spec["rank_order"][out_name_].append(r)
    parts = []
    pre = {}       # rank -> levels above the flattened bottom level
    names = []
    for r in flat:
        if draw(st.integers(0, 2)) == 0:
            n = draw(st.sampled_from([1, 1, 2]))
            dirs = []
            for i in range(n):
                dirs.append("uniform_shape(%s)" % draw(size_token(r + str(n - 1 - i), 1, rt["extents"][r] + 1, rt["sizes"])))
            parts.append([r, dirs])
            pre[r] = levels_of(r, n)[:-1]
            names.append(r + "0")
        else:
            pre[r] = []
            names.append(r)
    fname = "".join(names)
    parts.append(["(" + ", ".join(names) + ")", ["flatten()"]])
    flevels = [fname]
    if draw(st.booleans()):
        hs = [f["t"] for f in expr["terms"][0]["factors"] if "t" in f and
              all(any(r.lower() in S.iexpr_vars(ie) for ie in f["idx"]) for r in flat)]
        nocc = draw(st.sampled_from([1, 1, 2]))
        dirs = []
        for i in range(nocc):
            dirs.append("uniform_occupancy(%s.%s)" % (draw(st.sampled_from(hs)),
                                                      draw(size_token("sz_f" + str(i), 1, 5, rt["sizes"]))))
        parts.append([fname, dirs])
        flevels = levels_of(fname, nocc)
    # other ranks: optionally shape / occupancy partitioned
    groups = []
    others = [r for r in vs if r not in flat]
    for r in others:
        if r.lower() in input_carried_vars(expr) and draw(st.integers(0, 2)) == 0:
            if draw(st.integers(0, 2)) == 0:
                dirs, sizes = draw(shape_stack(r, rt["extents"][r], 2))
                rt["sizes"].update(sizes)
            else:
                dirs = draw(occ_stack(r, rt["extents"][r], holders(expr, r.lower()), rt["sizes"]))
            parts.append([r, dirs])
            groups.append(levels_of(r, len(dirs)))
        else:
            groups.append([r])
    # the flattened rank's levels come after every upper level of its constituents
    chain = []
    pres = [pre[r] for r in flat if pre[r]]
    chain = draw(interleave(pres)) + flevels if pres else flevels
    groups.append(chain)
    spec["partitioning"] = {"Z": parts}
    spec["loop_order"] = {"Z": draw(interleave(groups))}
    case["lo_mode"] = "ordered"
    case["flat"] = names
    case.update(rt)
    return case


# --------------------------------------------------------------------------
# D_affine: integer-affine index expressions (C04)


def _ie(*terms):
    return [[c, v] for c, v in terms]


@st.composite
def case_affine(draw, max_extent=6, coeffs=(1, 1, 2, 2, 3, 4), allow_partition=True, allow_reverse=False, force_levels=None):
    """
    templates: conv1d (stride/dilation), conv2d, three-variable sum, subsampling, renaming;
    optional extra plain ranks (batch N in I and O, channel M in F and O, reduction C in I and F).
    returns a case with shape-consistent extents.
    """
    tmpl = draw(st.sampled_from(["conv1d", "conv1d", "conv1d", "conv2d", "sum3", "subsample", "rename", "convneg", "convneg", "twotap"]))
    ext = {}
    sizes = {}
    e = lambda: draw(st.integers(1, max_extent))  # noqa: E731
    co = lambda: draw(st.sampled_from(coeffs))     # noqa: E731
    parts = []
    extra_followers = []
    affine = []      # (tensor rank W, [(coeff, VAR)...]) the equations
    if tmpl in ("conv1d", "sum3"):
        a, b = co(), co()
        extras = draw(subset(["N", "M", "C"])) if draw(st.booleans()) else []
        ext["Q"], ext["S"] = e(), e()
        terms = [(a, "q"), (b, "s")]
        if tmpl == "sum3":
            c = co()
            ext["P"] = e()
            terms = [(c, "p")] + terms
        ext["W"] = sum(cf * (ext[v.upper()] - 1) for cf, v in terms) + 1
        for x in extras:
            ext[x] = e()
        i_idx = [_ie(*terms)]
        i_decl = ["W"]
        f_idx, f_decl = [_ie((1, "s"))], ["S"]
        o_idx = ([_ie((1, "p"))] if tmpl == "sum3" else []) + [_ie((1, "q"))]
        o_decl = (["P"] if tmpl == "sum3" else []) + ["Q"]
        if "N" in extras:
            i_idx.insert(0, _ie((1, "n"))); i_decl.insert(0, "N")
            o_idx.insert(0, _ie((1, "n"))); o_decl.insert(0, "N")
        if "M" in extras:
            f_idx.insert(0, _ie((1, "m"))); f_decl.insert(0, "M")
            o_idx.append(_ie((1, "m"))); o_decl.append("M")
        if "C" in extras:
            i_idx.append(_ie((1, "c"))); i_decl.append("C")
            f_idx.append(_ie((1, "c"))); f_decl.append("C")
        decl = [["F", f_decl], ["I", i_decl], ["O", o_decl]]
        facs = [{"t": "I", "idx": i_idx}, {"t": "F", "idx": f_idx}]
        extra_followers = []
        if draw(st.integers(0, 1 if allow_reverse else 3)) == 0:
            # a second tensor accessed with the same affine index (two projected inputs at one loop)
            decl.insert(1, ["G", list(i_decl)])
            facs.insert(draw(st.integers(0, 1)), {"t": "G", "idx": copy.deepcopy(i_idx)})
        if tmpl == "conv1d" and draw(st.integers(0, 2)) == 0:
            # an operand indexed by the output rank itself (sparse: it can have empty partitions)
            decl.append(["H", ["Q"]])
            facs.insert(draw(st.integers(0, len(facs))), {"t": "H", "idx": [_ie((1, "q"))]})
        if tmpl == "conv1d" and draw(st.integers(0, 3)) == 0:
            # a second affine tensor over its own rank X with its own coefficients (a different halo when X follows Q)
            a2, b2 = draw(st.sampled_from([1, 1, 2])), draw(st.sampled_from([1, 2, 2]))
            ext["X"] = a2 * (ext["Q"] - 1) + b2 * (ext["S"] - 1) + 1
            decl.append(["K", ["X"]])
            facs.insert(draw(st.integers(0, len(facs))), {"t": "K", "idx": [_ie((a2, "q"), (b2, "s"))]})
            affine.append(("X", [(a2, "Q"), (b2, "S")]))
            extra_followers.append("X")
        if draw(st.booleans()):
            facs.reverse()
        expr = {"out": ["O", o_idx], "terms": [{"take": None, "factors": facs}]}
        affine.append(("W", [(cf, v.upper()) for cf, v in terms]))
        out_affine_rank, follower = "Q", "W"
    elif tmpl == "twotap":
        # two reduction taps in one access, the scaled one written first: O[q] = I[q + a*r + b*s] * F[r, s]
        a, b = co(), co()
        ext["Q"], ext["R"], ext["S"] = e(), draw(st.integers(1, 3)), draw(st.integers(1, 3))
        terms = [(1, "q"), (a, "r"), (b, "s")]
        ext["W"] = sum(cf * (ext[v.upper()] - 1) for cf, v in terms) + 1
        decl = [["F", ["R", "S"]], ["I", ["W"]], ["O", ["Q"]]]
        facs = [{"t": "I", "idx": [_ie(*terms)]}, {"t": "F", "idx": [_ie((1, "r")), _ie((1, "s"))]}]
        if draw(st.booleans()):
            facs.reverse()
        expr = {"out": ["O", [_ie((1, "q"))]], "terms": [{"take": None, "factors": facs}]}
        affine.append(("W", [(cf, v.upper()) for cf, v in terms]))
        out_affine_rank, follower = "Q", "W"
    elif tmpl == "convneg":
        # negative coefficients: O[q] = I[a*q + -b*s (+ -c*v)] * F[s] (* G[v]); accesses below 0 are simply absent
        a, b = co(), draw(st.sampled_from([1, 1, 2]))
        ext["Q"], ext["S"] = e(), e()
        terms = [(a, "q"), (-b, "s")]
        decl = [["F", ["S"]], ["I", ["W"]], ["O", ["Q"]]]
        facs = [{"t": "F", "idx": [_ie((1, "s"))]}]
        if draw(st.booleans()):
            c = draw(st.sampled_from([1, 2]))
            ext["V"] = draw(st.integers(1, 3))
            terms.append((-c, "v"))
            decl.insert(1, ["G", ["V"]])
            facs.append({"t": "G", "idx": [_ie((1, "v"))]})
        ext["W"] = a * (ext["Q"] - 1) + 1
        facs.insert(draw(st.integers(0, len(facs))), {"t": "I", "idx": [_ie(*terms)]})
        expr = {"out": ["O", [_ie((1, "q"))]], "terms": [{"take": None, "factors": facs}]}
        affine.append(("W", [(cf, v.upper()) for cf, v in terms]))
        out_affine_rank, follower = "Q", "W"
    elif tmpl == "conv2d":
        a, b = co(), co()
        for r in "PQRS":
            ext[r] = e() if r in "PQ" else draw(st.integers(1, 3))
        ext["H"] = a * (ext["P"] - 1) + (ext["R"] - 1) + 1
        ext["W"] = b * (ext["Q"] - 1) + (ext["S"] - 1) + 1
        decl = [["I", ["H", "W"]], ["F", ["R", "S"]], ["O", ["P", "Q"]]]
        expr = {"out": ["O", [_ie((1, "p")), _ie((1, "q"))]],
                "terms": [{"take": None, "factors": [
                    {"t": "I", "idx": [_ie((a, "p"), (1, "r")), _ie((b, "q"), (1, "s"))]},
                    {"t": "F", "idx": [_ie((1, "r")), _ie((1, "s"))]}]}]}
        affine.append(("H", [(a, "P"), (1, "R")]))
        affine.append(("W", [(b, "Q"), (1, "S")]))
        out_affine_rank, follower = "Q", "W"
    elif tmpl == "subsample":
        c = co()
        ext["M"] = e()
        ext["K"] = c * (ext["M"] - 1) + 1
        two = draw(st.booleans())
        decl = [["A", ["K"]], ["Z", ["M"]]]
        facs = [{"t": "A", "idx": [_ie((c, "m"))]}]
        if two:
            decl.insert(1, ["B", ["M"]])
            facs.append({"t": "B", "idx": [_ie((1, "m"))]})
        expr = {"out": ["Z", [_ie((1, "m"))]], "terms": [{"take": None, "factors": facs}]}
        affine.append(("K", [(c, "M")]))
        out_affine_rank, follower = "M", "K"
    else:  # rename: A's rank I is indexed by m
        ext["M"] = e()
        ext["I"] = ext["M"]
        ext["N"] = e()
        decl = [["A", ["I", "N"]], ["Z", ["M"]]]
        expr = {"out": ["Z", [_ie((1, "m"))]],
                "terms": [{"take": None, "factors": [{"t": "A", "idx": [_ie((1, "m")), _ie((1, "n"))]}]}]}
        affine.append(("I", [(1, "M")]))
        out_affine_rank, follower = "M", "I"
    out = expr["out"][0]
    spec = {"decl": decl, "exprs": [expr], "rank_order": {}, "loop_order": {}, "partitioning": {}, "spacetime": {}, "extra": {}}
    spec["rank_order"] = draw(rank_orders(decl))
    # ---- partitioning of the output index rank with the input rank following
    part_levels = 0
    reverse = False
    if force_levels or (allow_partition and draw(st.integers(0, 2)) <= (1 if allow_reverse else 0)):
        part_levels = force_levels or draw(st.sampled_from([1, 1, 2]))
        dirs = []
        for i in range(part_levels):
            kind = draw(st.sampled_from(["uniform_shape", "uniform_shape", "nway_shape"]))
            nm = out_affine_rank + str(part_levels - 1 - i)
            dirs.append("%s(%s)" % (kind, draw(size_token(nm, 1, ext[out_affine_rank] + 1, sizes))))
        if allow_reverse and tmpl in ("conv1d", "sum3") and draw(st.integers(0, 1)) == 0:
            # static checks only: an occupancy level beneath the shape split (dynamic follower with halo)
            lead = draw(st.sampled_from([f["t"] for f in facs if f["t"] != "F"]))
            dirs = [d.replace("nway_shape", "uniform_shape") for d in dirs]
            dirs.append("uniform_occupancy(%s.%s)" % (lead, draw(size_token("sz_occ", 1, 4, sizes))))
            part_levels += 1
        parts = [[out_affine_rank, dirs], [follower, ["follow(%s)" % out_affine_rank]]]
        for xf in (extra_followers if tmpl == "conv1d" else []):
            parts.append([xf, ["follow(%s)" % out_affine_rank]])
        reverse = allow_reverse and draw(st.integers(0, 2)) == 0
        if reverse:
            # the tensor's own rank is partitioned and the output index rank follows it (static checks only:
            # the step of the follower can be fractional, e.g. 1 / 2 * step, which no execution model supports)
            parts = [[follower, dirs], [out_affine_rank, ["follow(%s)" % follower]]]
        spec["partitioning"] = {out: parts}
    # ---- loop order: for each equation choose which of its ranks are looped (all but one).
    # Only a non-output variable may be replaced by the tensor's own rank (replacing an output variable would need a
    # projection into the output, which the compiler states to be illegal - that family is C18's business).
    vs = [v.upper() for v in S.expr_vars(expr)]
    out_vars = [ie[0][1].upper() for ie in expr["out"][1]]
    if draw(st.integers(0, 5)) > 0:
        loop = list(vs)
        for trank, terms in affine:
            repl = [v for _, v in terms if v not in out_vars]
            repl = [v for v in repl if v in loop]
            if tmpl == "twotap" or extra_followers:
                # (with two different affine tensors sharing a variable, looping over one tensor's own rank would need the
                #  composition of two index equations, which the compiler does not attempt)
                repl = []    # replacing one of two taps of the same tensor is legal only for some positions: not generated
            if repl and draw(st.booleans()):
                loop[loop.index(draw(st.sampled_from(repl)))] = trank
        # expand partitioned ranks into levels; the follower shares the leader's upper levels, only its bottom level is
        # looped, placed between the leader's upper levels and the leader's bottom level (rarely after it: F-C04-3)
        groups = []
        for r in loop:
            if part_levels and r == out_affine_rank:
                lv = levels_of(r, part_levels)
                if follower in loop:
                    lv = lv[:-1] + ([lv[-1], follower + "0"] if draw(st.integers(0, 9)) == 0 else [follower + "0", lv[-1]])
                groups.append(lv)
            elif part_levels and r == follower:
                continue
            else:
                groups.append([r])
        if draw(st.booleans()):
            spec["loop_order"] = {out: draw(interleave(groups))}
        else:
            groups = list(draw(st.permutations(groups)))
            spec["loop_order"] = {out: [x for g in groups for x in g]}
    rt = draw(runtime(spec, extents=ext))
    rt["sizes"].update(sizes)
    if any(d[0] == "H" for d in decl) and draw(st.booleans()):
        from . import execute as X_
        hd = draw(tensor_data([ext["Q"]], classes=["sparse", "sparse", "half"]))
        rt["inputs"]["H"] = X_.inputs_to_json({"H": hd})["H"]
    case = {"spec": spec, "template": tmpl, "part_levels": part_levels,
            "affine": [[w, [[c, v] for c, v in terms]] for w, terms in affine],
            "part_rank": out_affine_rank if part_levels else None, "follower": follower if part_levels else None,
            "reverse_follow": reverse, "followers": ([follower] + list(extra_followers)) if part_levels else []}
    case.update(rt)
    return case


# --------------------------------------------------------------------------
# spacetime (C16, C05 text part) and cascades (C05)


@st.composite
def spacetime_for(draw, loop_ranks, allow_slip=True, styles=("", ".pos", ".coord")):
    """split the loop ranks into space / time, each stamped R, R.pos or R.coord"""
    ranks = list(draw(st.permutations(loop_ranks))) if draw(st.booleans()) else list(loop_ranks)
    k = draw(st.integers(0, len(ranks)))
    stamp = lambda r: r + draw(st.sampled_from(styles))  # noqa: E731
    stt = {"space": [stamp(r) for r in ranks[:k]], "time": [stamp(r) for r in ranks[k:]]}
    if allow_slip and draw(st.integers(0, 3)) == 0:
        stt["opt"] = "slip"
    return stt


def default_loop_ranks(spec, expr):
    """index variables in order of first appearance (output first), partitioned ranks replaced by their levels"""
    out = S.out_name(expr)
    parts = dict((k, d) for k, d in (spec.get("partitioning") or {}).get(out, []))
    res = []
    for v in S.expr_vars(expr):
        r = v.upper()
        if r in parts:
            res += levels_of(r, len(parts[r]))
        else:
            res.append(r)
    return res


@st.composite
def cascade(draw, n_min=2, n_max=4, max_vars=4, allow_partition=True, ranks=RANKS):
    """2-4 Einsums; Einsum i may read any declared input and any earlier output; per-Einsum mappings"""
    n = draw(st.integers(n_min, n_max))
    fresh = iter(list("ABCDEFGH") + [x + y for x in "ABCDEFGH" for y in "ABCDEFGH"])
    pool = {}            # name -> declared ranks (inputs and earlier outputs)
    produced = []
    decls, exprs = [], []
    loop_order, partitioning = {}, {}
    sizes_needed = []    # (name, lo, hi-rank) handled at runtime: store symbolic names with ranks
    part_info = {}
    for i in range(n):
        out = "T%d" % i if i < n - 1 else "Z"
        cand = list(pool)
        reuse = []
        if cand:
            want_prev = [p for p in produced if p in pool]
            if want_prev and draw(st.integers(0, 3)) > 0:
                reuse.append(draw(st.sampled_from(want_prev)))
            more = [c for c in cand if c not in reuse]
            if more and draw(st.booleans()):
                reuse.append(draw(st.sampled_from(more)))
        vars_ = []
        for t in reuse:
            for r in pool[t]:
                if r.lower() not in vars_:
                    vars_.append(r.lower())
        if len(vars_) > max_vars:
            # too many ranks: drop reused tensors until it fits
            while reuse and len(vars_) > max_vars:
                reuse.pop()
                vars_ = []
                for t in reuse:
                    for r in pool[t]:
                        if r.lower() not in vars_:
                            vars_.append(r.lower())
        extra = [r.lower() for r in draw(st.permutations(list(ranks))) if r.lower() not in vars_]
        nextra = draw(st.integers(0 if vars_ else 1, max(0 if vars_ else 1, min(2, max_vars - len(vars_)))))
        vars_ = vars_ + extra[:nextra]
        nterms = draw(st.sampled_from([1, 1, 1, 2]))
        terms = [[] for _ in range(nterms)]
        for t in reuse:
            terms[draw(st.integers(0, nterms - 1))].append({"t": t, "idx": [plain(r.lower()) for r in pool[t]]})
        for tf in terms:
            covered = set(v for f in tf for ie in f["idx"] for v in S.iexpr_vars(ie))
            missing = [v for v in vars_ if v not in covered]
            nnew = draw(st.integers(1 if (missing or not tf) else 0, 2))
            for k in range(nnew):
                rs = list(missing) if k == 0 else []
                for v in vars_:
                    if v not in rs and draw(st.integers(0, 2)) == 0:
                        rs.append(v)
                rs = list(draw(st.permutations(rs))) if rs else []
                name = next(fresh)
                pool[name] = [v.upper() for v in rs]
                decls.append([name, pool[name]])
                tf.insert(draw(st.integers(0, len(tf))), {"t": name, "idx": [plain(v) for v in rs]})
        out_vars = draw(subset(vars_))
        out_vars = list(draw(st.permutations(out_vars))) if out_vars else []
        pool[out] = [v.upper() for v in out_vars]
        decls.append([out, pool[out]])
        produced.append(out)
        expr = {"out": [out, [plain(v) for v in out_vars]],
                "terms": [{"take": None, "factors": tf} for tf in terms]}
        exprs.append(expr)
        part_info[out] = (expr, [v.upper() for v in vars_])
    spec = {"decl": [list(d) for d in draw(st.permutations(decls))], "exprs": exprs,
            "rank_order": draw(rank_orders(decls)), "loop_order": {}, "partitioning": {}, "spacetime": {}, "extra": {}}
    return spec, part_info


@st.composite
def case_cascade(draw, max_extent=5, with_spacetime=False, allow_flatten=True, **kw):
    spec, part_info = draw(cascade(**kw))
    rt = draw(runtime(spec, max_extent=max_extent))
    for out, (expr, vs) in part_info.items():
        groups = []
        parts = []
        carried = [v.upper() for v in input_carried_vars(expr)]
        single = len(expr["terms"]) == 1
        wide = [f for f in expr["terms"][0]["factors"] if "t" in f and len(f["idx"]) >= 2] if single else []
        if allow_flatten and wide and draw(st.integers(0, 3)) == 0:
            # flatten two ranks of one tensor of this Einsum (the output is flattened too when it carries both)
            T = draw(st.sampled_from(wide))
            pair = list(draw(st.permutations([ie[0][1].upper() for ie in T["idx"]])))[:2]
            flat = "".join(pair)
            parts.append(["(" + ", ".join(pair) + ")", ["flatten()"]])
            lv = [flat]
            if draw(st.booleans()):
                hs = [f["t"] for f in expr["terms"][0]["factors"] if "t" in f and
                      all(any(r.lower() in S.iexpr_vars(ie) for ie in f["idx"]) for r in pair)]
                parts.append([flat, ["uniform_occupancy(%s.%d)" % (draw(st.sampled_from(hs)), draw(st.integers(1, 3)))]])
                lv = levels_of(flat, 1)
            spec["partitioning"][out] = parts
            rest = [[r] for r in vs if r not in pair]
            spec["loop_order"][out] = draw(interleave(list(draw(st.permutations(rest + [lv])))))
            continue
        for r in vs:
            if r in carried and draw(st.integers(0, 3)) == 0:
                if single and draw(st.booleans()):
                    dirs = draw(occ_stack(r, rt["extents"][r], holders(expr, r.lower()), rt["sizes"]))
                else:
                    dirs, sizes = draw(shape_stack(r, rt["extents"][r], 2))
                    rt["sizes"].update(sizes)
                parts.append([r, dirs])
                groups.append(levels_of(r, len(dirs)))
            else:
                groups.append([r])
        if parts:
            spec["partitioning"][out] = parts
        if groups and (with_spacetime or draw(st.integers(0, 3)) > 0):
            spec["loop_order"][out] = draw(interleave(list(draw(st.permutations(groups)))))
            if with_spacetime and draw(st.integers(0, 2)) > 0:
                spec["spacetime"][out] = draw(spacetime_for(spec["loop_order"][out]))
    case = {"spec": spec}
    case.update(rt)
    return case


# --------------------------------------------------------------------------
# the corpus shared by the static checks (C06, C09, C10): every family, plain or spacetime mode


@st.composite
def with_spacetime(draw, case):
    """add a spacetime section for every Einsum (explicit loop order is written out first)"""
    spec = case["spec"]
    for expr in spec["exprs"]:
        out = S.out_name(expr)
        lo = (spec.get("loop_order") or {}).get(out)
        if not lo:
            if case.get("family") in ("flat", "flat2") or any(k.startswith("(") for k, _ in (spec.get("partitioning") or {}).get(out, [])):
                continue        # the default order of flattened mappings is not defined by the property (C19): not reconstructed
            lo = default_loop_ranks(spec, expr)
            if not lo:
                continue
            spec.setdefault("loop_order", {})[out] = lo
        spec.setdefault("spacetime", {})[out] = draw(spacetime_for(lo))
    return case


@st.composite
def case_shape_any(draw, max_extent=5):
    """D_shape, but output-only ranks may exist and may be partitioned (C06's known finding lives there)"""
    c = draw(case_shape(max_extent=max_extent, allow_output_only=True))
    return c


@st.composite
def corpus_case(draw, max_extent=4, spacetime_ratio=2, static_only=True,
                families=("plain", "plain", "shape", "shape", "occ", "flat", "affine", "affine", "cascade")):
    fam = draw(st.sampled_from(list(families)))
    if fam == "plain":
        c = draw(case_of(spec_plain(), max_extent=max_extent))
    elif fam == "shape":
        c = draw(case_shape_any(max_extent=max_extent))
    elif fam == "occ":
        c = draw(case_occ(max_extent=max_extent))
    elif fam == "flat":
        c = draw(case_flat(max_extent=max_extent))
    elif fam == "flat2":
        c = draw(case_flat2(max_extent=max_extent))
    elif fam == "flatd":
        c = draw(case_flat_discord(max_extent=max_extent))
    elif fam == "affine":
        c = draw(case_affine(max_extent=max_extent, allow_reverse=static_only))
    elif fam == "conv2p":
        c = draw(case_conv2p(max_extent=max_extent))
    else:
        c = draw(case_cascade(max_extent=3))
    c.setdefault("family", fam)
    mode = "plain"
    # (spacetime_ratio None = never; a huge upper bound would not do: integer strategies favour their end points)
    if spacetime_ratio is not None and draw(st.integers(0, spacetime_ratio)) == 0:
        c = draw(with_spacetime(c))
        if c["spec"].get("spacetime"):
            mode = "spacetime"
    c["mode"] = mode
    return c


# --------------------------------------------------------------------------
# 2-D convolution with BOTH output index ranks shape-partitioned and both input ranks following (two projected,
# partitioned ranks in one Einsum: two interval computations)


@st.composite
def case_conv2p(draw, max_extent=5):
    """O[p, q] = I[p + r, q + s] * F[r, s]; P: [uniform_shape(P0)], H: [follow(P)], Q: [uniform_shape(Q0)], W: [follow(Q)].
    Built outside every known-finding class of C04/C06: unit coefficients, one level per rank, conventionally named symbolic
    sizes, followers not looped, no input partition starting beyond the output extent."""
    def dim():
        for _ in range(20):
            q = draw(st.integers(1, max_extent))
            t = draw(st.integers(1, 3))
            step = draw(st.integers(1, q + 1))
            w = q + t - 1
            if step * ((w - 1) // step) <= q:
                return q, t, step
        return 1, 1, 1
    P, R, p0 = dim()
    Q, S_, q0 = dim()
    ext = {"P": P, "R": R, "Q": Q, "S": S_, "H": P + R - 1, "W": Q + S_ - 1}
    i_idx = [_ie((1, "p"), (1, "r")), _ie((1, "q"), (1, "s"))]
    f_idx = [plain("r"), plain("s")]
    facs = [{"t": "I", "idx": i_idx}, {"t": "F", "idx": f_idx}]
    if draw(st.booleans()):
        facs.reverse()
    decl = [["F", ["R", "S"]], ["I", ["H", "W"]], ["O", ["P", "Q"]]]
    spec = {"decl": decl, "exprs": [{"out": ["O", [plain("p"), plain("q")]], "terms": [{"take": None, "factors": facs}]}],
            "rank_order": {}, "loop_order": {}, "partitioning": {}, "spacetime": {}, "extra": {}}
    spec["partitioning"] = {"O": [["P", ["uniform_shape(P0)"]], ["H", ["follow(P)"]], ["Q", ["uniform_shape(Q0)"]], ["W", ["follow(Q)"]]]}
    groups = [["P1", "P0"], ["Q1", "Q0"], ["R"], ["S"]]
    spec["loop_order"] = {"O": draw(interleave(list(draw(st.permutations(groups)))))}
    rt = draw(runtime(spec, extents=ext))
    rt["sizes"].update({"P0": p0, "Q0": q0})
    case = {"spec": spec, "template": "conv2p", "part_levels": 0, "affine": [], "part_rank": None, "follower": None,
            "followers": [], "reverse_follow": False, "family": "conv2p"}
    case.update(rt)
    return case


# --------------------------------------------------------------------------
# two flattenings on one tensor (C08: sets of partitionings are iterated in hash order)


@st.composite
def case_flat2(draw, max_extent=4):
    """Z[subset] = A[4 ranks in drawn order] (* B[one rank])?; two pairs of A's ranks are flattened, each raw, below a
    shape split or below an occupancy split (dynamic flattening)"""
    rs = list(draw(st.permutations(["K", "M", "J", "N"])))
    aligned = draw(st.booleans())
    # aligned: the declared order already has both groups adjacent and in order (the flattening swizzle is a no-op)
    decl_a = list(rs) if aligned else list(draw(st.permutations(rs)))
    pairs = [[rs[0], rs[1]], [rs[2], rs[3]]]
    outv = list(rs) if draw(st.integers(0, 2)) == 0 else draw(subset(rs))
    outv = list(draw(st.permutations(outv))) if outv and not aligned else list(outv)
    facs = [{"t": "A", "idx": [plain(r.lower()) for r in decl_a]}]
    decl = [["A", decl_a], ["Z", outv]]
    k = draw(st.integers(0, 2))
    if k == 1:
        r = draw(st.sampled_from(rs))
        decl.insert(1, ["B", [r]])
        facs.append({"t": "B", "idx": [plain(r.lower())]})
    elif k == 2:
        decl.insert(1, ["B", list(decl_a)])
        facs.append({"t": "B", "idx": [plain(r.lower()) for r in decl_a]})
    spec = {"decl": decl, "exprs": [{"out": ["Z", [plain(r.lower()) for r in outv]], "terms": [{"take": None, "factors": facs}]}],
            "rank_order": {}, "loop_order": {}, "partitioning": {}, "spacetime": {}, "extra": {}}
    rt = draw(runtime(spec, max_extent=max_extent))
    parts, chains = [], []
    for pair in pairs:
        pair = list(pair) if aligned else list(draw(st.permutations(pair)))
        names, pre = [], []
        mode = draw(st.sampled_from(["raw", "raw", "shape", "occ"]))
        which = draw(st.integers(0, 1))
        for i, r in enumerate(pair):
            if mode != "raw" and i == which:
                d = "uniform_shape(%d)" % draw(st.integers(1, 3)) if mode == "shape" else "uniform_occupancy(A.%d)" % draw(st.integers(1, 3))
                parts.append([r, [d]])
                names.append(r + "0")
                pre.append(r + "1")
            else:
                names.append(r)
        parts.append(["(" + ", ".join(names) + ")", ["flatten()"]])
        chains.append(pre + ["".join(names)])
    if draw(st.booleans()):
        parts = list(draw(st.permutations(parts)))
    spec["partitioning"] = {"Z": parts}
    spec["loop_order"] = {"Z": draw(interleave(chains))}
    case = {"spec": spec, "family": "flat2", "lo_mode": "ordered"}
    case.update(rt)
    return case



@st.composite
def case_cascade_affine(draw, max_extent=4):
    """an affine Einsum (conv / subsample) followed by 1-2 element-wise Einsums that reuse its index names, with
    partitioning of the shared rank in the later Einsums (per-Einsum coordinate math must not leak)"""
    a, b = draw(st.sampled_from([1, 1, 2])), draw(st.sampled_from([1, 1, 2]))
    conv = draw(st.booleans())
    ext = {"Q": draw(st.integers(1, max_extent))}
    if conv:
        ext["S"] = draw(st.integers(1, 3))
        ext["W"] = a * (ext["Q"] - 1) + b * (ext["S"] - 1) + 1
        decl = [["F", ["S"]], ["I", ["W"]], ["T0", ["Q"]]]
        e0 = {"out": ["T0", [plain("q")]], "terms": [{"take": None, "factors": [
            {"t": "I", "idx": [_ie((a, "q"), (b, "s"))]}, {"t": "F", "idx": [plain("s")]}]}]}
    else:
        ext["W"] = a * (ext["Q"] - 1) + 1
        decl = [["I", ["W"]], ["T0", ["Q"]]]
        e0 = {"out": ["T0", [plain("q")]], "terms": [{"take": None, "factors": [{"t": "I", "idx": [_ie((a, "q"))]}]}]}
    exprs = [e0]
    n = draw(st.integers(1, 2))
    prev = "T0"
    spec = {"decl": decl, "exprs": exprs, "rank_order": {}, "loop_order": {}, "partitioning": {}, "spacetime": {}, "extra": {}}
    sizes = {}
    for i in range(n):
        out = "Z" if i == n - 1 else "T%d" % (i + 1)
        other = "G%d" % i
        decl.append([other, ["Q"]])
        decl.append([out, ["Q"]])
        exprs.append({"out": [out, [plain("q")]], "terms": [{"take": None, "factors": [
            {"t": prev, "idx": [plain("q")]}, {"t": other, "idx": [plain("q")]}]}]})
        if draw(st.integers(0, 3)) > 0:
            dirs, sz = draw(shape_stack("Q", ext["Q"], 2))
            sizes.update(sz)
            spec["partitioning"][out] = [["Q", dirs]]
        prev = out
    rt = draw(runtime(spec, extents=ext))
    rt["sizes"].update(sizes)
    case = {"spec": spec, "family": "cascade-affine"}
    case.update(rt)
    return case



@st.composite
def case_flat_discord(draw, max_extent=4):
    """
    A[m, n] is flattened over (M, N); T[m, k] lacks N and is reached by getPayload; K is occupancy-partitioned (leader T or B)
    and an unrelated rank P may be looped in between: Z[subset] = A[m, n] * T[m, k] * B[p, k]
    """
    pair = list(draw(st.permutations(["M", "N"])))
    a_decl = list(draw(st.permutations(["M", "N"])))
    t_decl = list(draw(st.permutations(["M", "K"])))
    with_p = draw(st.integers(0, 3)) > 0
    b_decl = list(draw(st.permutations(["P", "K"]))) if with_p else ["K"]
    allr = ["M", "N", "K"] + (["P"] if with_p else [])
    outv = list(draw(st.permutations(draw(subset(allr)))))
    decl = [["A", a_decl], ["T", t_decl], ["B", b_decl], ["Z", outv]]
    facs = [{"t": n, "idx": [plain(r.lower()) for r in rs]} for n, rs in decl[:3]]
    facs = list(draw(st.permutations(facs)))
    spec = {"decl": list(draw(st.permutations(decl))),
            "exprs": [{"out": ["Z", [plain(r.lower()) for r in outv]], "terms": [{"take": None, "factors": facs}]}],
            "rank_order": {}, "loop_order": {}, "partitioning": {}, "spacetime": {}, "extra": {}}
    rt = draw(runtime(spec, max_extent=max_extent))
    nocc = draw(st.sampled_from([1, 1, 2]))
    dirs = ["uniform_occupancy(%s.%d)" % (draw(st.sampled_from(["T", "B"])), draw(st.integers(1, 3))) for _ in range(nocc)]
    if draw(st.integers(0, 3)) == 0:
        dirs.insert(0, "uniform_shape(%d)" % draw(st.integers(1, 3)))
    flat = "".join(pair)
    spec["partitioning"] = {"Z": [["(" + ", ".join(pair) + ")", ["flatten()"]], ["K", dirs]]}
    groups = [[flat], levels_of("K", len(dirs))] + ([["P"]] if with_p else [])
    spec["loop_order"] = {"Z": draw(interleave(groups))}
    case = {"spec": spec, "family": "flatd", "lo_mode": "ordered"}
    case.update(rt)
    return case
