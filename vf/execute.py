"""
Compile a specification with the real compiler and execute the emitted text on
the reference model.
"""
import copy
import os
import sys
import traceback

REPO = os.environ.get("VERIF_REPO", "/repo")
if REPO not in sys.path:
    sys.path.insert(0, REPO)
sys.dont_write_bytecode = True

from . import spec as S            # noqa: E402
from . import hfmodel as M         # noqa: E402
from . import standins             # noqa: E402


class Rejected(Exception):
    """the compiler refused the specification (ValueError etc.)"""

    def __init__(self, exc):
        super().__init__("%s: %s" % (type(exc).__name__, exc))
        self.exc = exc
        self.kind = type(exc).__name__
        self.frame = innermost_teaal_frame(exc)


class ProgramError(Exception):
    """the emitted program failed when executed on the reference model"""

    def __init__(self, exc, line, lineno):
        super().__init__("%s: %s at line %s: %s" % (type(exc).__name__, exc, lineno, (line or "").strip()))
        self.exc = exc
        self.kind = type(exc).__name__
        self.line = line
        self.lineno = lineno


def innermost_teaal_frame(exc):
    tb = traceback.extract_tb(exc.__traceback__)
    for fr in reversed(tb):
        if "/teaal/" in fr.filename:
            return "%s:%s" % (fr.filename.split("/teaal/")[-1], fr.name)
    return ""


def parse_objects(yaml_text, metrics=False):
    from teaal.parse import Einsum, Mapping, Architecture, Bindings, Format
    objs = [Einsum.from_str(yaml_text), Mapping.from_str(yaml_text)]
    if metrics:
        objs += [Architecture.from_str(yaml_text), Bindings.from_str(yaml_text), Format.from_str(yaml_text)]
    return objs


def compile_text(yaml_text, metrics=False):
    """returns the HiFiber translator object; raises Rejected for ValueError"""
    from teaal.trans.hifiber import HiFiber
    try:
        objs = parse_objects(yaml_text, metrics)
        return HiFiber(*objs)
    except ValueError as e:       # the documented way of refusing a specification
        raise Rejected(e)


def compile_spec(spec, metrics=None):
    if metrics is None:
        metrics = bool((spec.get("extra") or {}).get("architecture"))
    return compile_text(S.to_yaml(spec), metrics)


# --------------------------------------------------------------------------


def inputs_from_json(j):
    return {n: {tuple(c): v for c, v in items} for n, items in j.items()}


def inputs_to_json(inputs):
    return {n: [[list(c), v] for c, v in sorted(d.items())] for n, d in inputs.items()}


def build_namespace(spec, extents, scalars, sizes, inputs, recorder=None, watch=None):
    """
    The namespace the user is documented to supply, and only that:
    input tensors under <Name>_<RankOrder>, rank extents, scalar operands,
    symbolic partition sizes, API names.
    """
    decl = S.decl_of(spec)
    g = {"Tensor": M.Tensor, "Fiber": M.Fiber}
    rec = recorder or standins.Recorder()
    rec.ns = g
    rec.watch = set(watch) if watch else None
    g.update(standins.api(rec))
    g.update(extents)
    g.update(scalars)
    g.update(sizes)
    supplied = {}
    for n in S.user_inputs(spec):
        order = S.order_of(spec, n)
        d = inputs.get(n, {})
        perm = [decl[n].index(r) for r in order]
        t = M.Tensor.fromDict(order, {tuple(cs[i] for i in perm): v for cs, v in d.items()}, n)
        var = n + "_" + "".join(order)
        g[var] = t
        supplied[var] = t
    return g, supplied, rec


def run_text(text, spec, extents, scalars, sizes, inputs, watch=None):
    """
    exec the emitted text; returns dict(ns=final namespace, supplied=..., snaps=..., rec=..., stats=...)
    raises ProgramError for an exception raised by the program, M.Unsupported for model limits
    """
    g, supplied, rec = build_namespace(spec, extents, scalars, sizes, inputs, watch=watch)
    snaps = {v: M.snapshot(t) for v, t in supplied.items()}
    M.reset_stats()
    try:
        code = compile(text, "<emitted>", "exec")
    except SyntaxError as e:
        raise ProgramError(e, e.text, e.lineno)
    try:
        exec(code, g)
    except M.Unsupported:
        raise
    except RecursionError:
        raise
    except Exception as e:
        lineno = None
        for fr in traceback.extract_tb(e.__traceback__):
            if fr.filename == "<emitted>":
                lineno = fr.lineno
        line = text.split("\n")[lineno - 1] if lineno else ""
        raise ProgramError(e, line, lineno)
    return {"ns": g, "supplied": supplied, "snaps": snaps, "rec": rec, "stats": dict(M.STATS)}


def output_map(ns, spec, name):
    """the final value of <Name>_<declared-or-rank-order ranks> as a map in *declared* order, or an error string"""
    var = S.tensor_var(spec, name)
    t = ns.get(var)
    if not isinstance(t, M.Tensor):
        return None, "output variable %s is %s" % (var, "missing" if t is None else type(t).__name__)
    order = S.order_of(spec, name)
    if t.getRankIds() != order:
        return None, "output %s has rank ids %r, expected %r" % (var, t.getRankIds(), order)
    try:
        d = t.toDict()
    except M.ModelError as e:
        return None, "output %s malformed: %s" % (var, e)
    decl = S.decl_of(spec)[name]
    perm = [order.index(r) for r in decl]
    return {tuple(k[i] for i in perm): v for k, v in d.items()}, None
