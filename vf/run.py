"""python -m vf.run <Cxx> --tier quick|thorough   (see DESIGN.md section 2)"""
import argparse
import os
import sys


def main():
    ap = argparse.ArgumentParser()
    ap.add_argument("prop")
    ap.add_argument("--tier", default=os.environ.get("VERIF_TIER", "quick"), choices=["quick", "thorough"])
    args = ap.parse_args()
    # fixed hash seed for the compiler's set/dict iteration: re-exec once
    if os.environ.get("PYTHONHASHSEED") != "0":
        env = dict(os.environ, PYTHONHASHSEED="0", PYTHONDONTWRITEBYTECODE="1")
        os.execve(sys.executable, [sys.executable, "-m", "vf.run"] + sys.argv[1:], env)
    seed = int(os.environ.get("VERIF_SEED", "1") or "1")
    try:
        from . import runner
        rc = runner.run_check(args.prop.upper(), args.tier, seed)
    except SystemExit:
        raise
    except BaseException:
        import traceback
        print("HARNESS ERROR")
        traceback.print_exc()
        rc = 2
    sys.stdout.flush()
    sys.exit(rc)


if __name__ == "__main__":
    main()
