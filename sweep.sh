#!/bin/bash
# usage: sweep.sh <tier> <seed>...   -- runs every registered check at the given seeds, prints one summary line each
tier=$1; shift
cd "$(dirname "$0")"
for seed in "$@"; do
  for i in 01 02 03 04 05 06 07 08 09 10 11 12 13 14 15 16 17 18 19; do
    out=$(VERIF_SEED=$seed /venv/bin/python -m vf.run C$i --tier $tier 2>&1); rc=$?
    echo "seed=$seed C$i rc=$rc :: $(echo "$out" | grep -v KNOWN-FINDING | tail -1)"
    if [ $rc -ne 0 ]; then echo "$out" | grep -v KNOWN-FINDING | tail -12; fi
  done
done
