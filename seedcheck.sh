#!/bin/bash
# usage: seedcheck.sh <seed-id e.g. C04-A> <srcdir> <A|B> <props to run...>
# Confirms a seeded change: applies to a scratch copy of /repo, runs the repo tests, runs the demo on both trees,
# runs the named checks against the scratch copy, then stores the seed under /verif/seeded/<id>/.
id=$1; src=$2; ab=$3; shift 3
D=$(mktemp -d /dev/shm/seed.XXXXXX)
rsync -a --exclude .git --exclude '*.egg-info' /repo/ $D/
( cd $D && git init -q . 2>/dev/null && git apply --whitespace=nowarn $src/patch_$ab.diff ) || { echo "PATCH DOES NOT APPLY"; rm -rf $D; exit 1; }
rm -rf $D/.git
tests=$(cd $D && PYTHONPATH=$D /venv/bin/python -m pytest -q -p no:cacheprovider 2>&1 | tail -1)
/venv/bin/python $src/demo_$ab.py $D >/dev/null 2>&1; d1=$?
/venv/bin/python $src/demo_$ab.py /repo >/dev/null 2>&1; d0=$?
echo "tests(with patch): $tests | demo patched exit=$d1 | demo clean exit=$d0"
cd /verif
res=""
for p in "$@"; do
  out=$(VERIF_REPO=$D VERIF_EVIDENCE_DIR=$D/ev /venv/bin/python -m vf.run $p --tier ${TIER:-quick} 2>&1); rc=$?
  echo "$out" | grep -v KNOWN-FINDING | tail -${TAIL:-4}
  res="$res $p:exit$rc"
done
rm -rf $D
mkdir -p /verif/seeded/$id
cp $src/patch_$ab.diff /verif/seeded/$id/patch.diff
cp $src/demo_$ab.py /verif/seeded/$id/demo.py
/venv/bin/python - <<EOF
import json
m=json.load(open("$src/meta_$ab.json"))
m["confirmed"]={"repo_tests_with_patch":"""$tests""","demo_exit_with_patch":$d1,"demo_exit_clean":$d0,"checks_run":"$res".split()}
json.dump(m,open("/verif/seeded/$id/meta.json","w"),indent=1)
EOF
echo "stored /verif/seeded/$id ($res)"
